"""Coverage-guided campaign (atheris / libFuzzer) over the SAME generators and oracles as the Hypothesis checks.

libFuzzer mutates the byte buffer that feeds the property's Hypothesis strategy (`test.hypothesis.fuzz_one_input`), so every
input is still a well-formed case of the property's domain; the code under test (hashstore/filehashstore.py, re-executed per case by
common.cold_module) is instrumented with atheris' byte-code instrumentation, so that libFuzzer's corpus keeps the cases that reach new
branches of the store.  The oracle is the property's own run_case(); a Violation ends the campaign of that shard, the case is
minimised and written as an ordinary replay file by the runner.

Used by the thorough tier of the history properties (see runner.FUZZ_PROPS).  If atheris cannot be imported the campaign is skipped
and recorded as such - the Hypothesis part of the check still decides."""
import json
import os
import sys
import time


def available():
    try:
        deps = os.path.join(os.path.dirname(os.path.dirname(os.path.abspath(__file__))), ".deps")
        if os.path.isdir(deps) and deps not in sys.path:
            sys.path.insert(0, deps)
        import atheris  # noqa
        return True
    except Exception:
        return False


def worker_main(prop_id, tier, seed, shard, nshards, out_path, runs, max_seconds):
    """Never returns normally when libFuzzer drives it: the result file is written by this function before os._exit."""
    from . import common, runner
    import atheris
    from hypothesis import HealthCheck, given, settings

    mod = runner.load_prop(prop_id)
    ctx = runner.Ctx(prop_id, tier)
    t0 = time.time()
    state = {"execs": 0, "violation": None, "error": None}
    # instrument the code object that cold_module() executes for every case
    common.CODE_PATCH = lambda code: atheris.patch_code(code, True, True)
    common._CODE.clear()

    def body(case):
        ctx.last_case = case
        ctx.count()
        try:
            runner._fresh_case()
            mod.run_case(case, ctx)
        finally:
            ctx.end_case()

    test = settings(database=None, deadline=None, suppress_health_check=list(HealthCheck))(given(mod.strategy(tier))(body))
    fuzz_one = test.hypothesis.fuzz_one_input

    def finish(code=0):
        res = {"violation": state["violation"], "error": state["error"], "fuzz_execs": state["execs"],
               "seed_corpus": state.get("seed_corpus", 0)}
        res.update(ctx.result())
        res["wall"] = time.time() - t0
        with open(out_path + ".tmp", "w", encoding="utf-8") as f:
            json.dump(res, f, default=str)
        os.replace(out_path + ".tmp", out_path)
        common.cleanup_scratch()
        os._exit(code)

    def one(data):
        state["execs"] += 1
        try:
            fuzz_one(data)
        except runner.Violation as v:
            case = ctx.last_case
            try:
                v, case = runner.ddmin_ops(mod, prop_id, tier, case, v)
            except BaseException:  # noqa
                pass
            state["violation"] = {"kind": v.kind, "detail": v.detail, "sig": v.sig, "case": case}
            finish(0)
        except BaseException as e:  # noqa - a harness problem, reported as such
            import traceback
            state["error"] = "".join(traceback.format_exception(type(e), e, e.__traceback__))[-3000:]
            finish(0)
        if state["execs"] >= runs or time.time() - t0 > max_seconds:
            finish(0)

    corpus = os.path.join(common.scratch_base(), "corpus")
    os.makedirs(corpus, exist_ok=True)
    # starting corpus: a few buffers of pseudo-random bytes (a pure function of seed and shard) long enough for the strategy to
    # draw a whole case from; an empty corpus makes libFuzzer start from inputs too short to be a case at all
    import hashlib

    class _Dry(Exception):
        pass

    def dry(case):      # (same strategy, no execution: only asks whether a buffer decodes to a case)
        raise _Dry()
    dry_test = settings(database=None, deadline=None, suppress_health_check=list(HealthCheck))(given(mod.strategy(tier))(dry))
    dry_one = dry_test.hypothesis.fuzz_one_input
    kept, n, t_seed = 0, 0, time.time()
    while kept < 48 and time.time() - t_seed < 20:
        n += 1
        blob = b"".join(hashlib.sha256(f"{seed}/{shard}/{n}/{i}".encode()).digest() for i in range(8 + 8 * (n % 12)))
        try:
            dry_one(blob)
            continue                      # not a case (rejected or too short)
        except _Dry:
            pass
        with open(os.path.join(corpus, f"seed{kept:02d}"), "wb") as f:
            f.write(blob)
        kept += 1
    state["seed_corpus"] = kept
    argv = [sys.argv[0], corpus, f"-seed={(seed * 1000 + shard) % (2 ** 31) or 1}", "-max_len=4096", "-len_control=0",
            "-print_final_stats=0", "-verbosity=0", f"-artifact_prefix={corpus}/"]
    atheris.Setup(argv, one)
    atheris.Fuzz()
    finish(0)
