"""Scenarios shared by the boundary-enumerating checks (C09, C10, C13, C08-fault, C03-fault):
a start state built by a short history + ONE target call whose file-system boundaries are then
enumerated (observation points, crash points, fault sites)."""
import os
import shutil

from hypothesis import strategies as st

from . import common, gen, ops, seq
from .common import call, is_ok

T = "target:pid"          # the pid the target call works on
O1, O2 = "pid", "other:target:pid.v2"   # bystanders: a suffix of T, and an extension of T
FMT = "fmt:a"

TARGETS = ["store_new", "store_dup_unref", "store_additional", "store_bytesio", "tag_unref", "tag_shared",
           "tag_first_noobj", "delete_sole", "delete_shared", "delete_with_meta", "smeta_new",
           "smeta_overwrite", "dmeta_one", "dmeta_all", "store_rebind", "tag_rebind", "delete_listed_first",
           "delete_listed_middle",
           "delete_refs_without_object", "tag_shared_noobj", "store_joins_noobj"]


def prerequisites(kind):
    """Start ops that establish the precondition of a target kind (content 0 = X is the target's)."""
    pre = {
        "store_new": [],
        "store_bytesio": [],
        "store_dup_unref": [{"op": "store", "pid": None, "c": 0}],
        "store_additional": [{"op": "store", "pid": O1, "c": 0}],
        "tag_unref": [{"op": "store", "pid": None, "c": 0}],
        "tag_shared": [{"op": "store", "pid": O1, "c": 0}],
        "tag_first_noobj": [],
        "delete_sole": [{"op": "store", "pid": T, "c": 0}],
        "delete_shared": [{"op": "store", "pid": O1, "c": 0}, {"op": "store", "pid": T, "c": 0}],
        # the target's line precedes (is between) the sharers' lines in the cid list
        "delete_listed_first": [{"op": "store", "pid": T, "c": 0}, {"op": "store", "pid": O1, "c": 0}],
        "delete_listed_middle": [{"op": "store", "pid": O2, "c": 0}, {"op": "store", "pid": T, "c": 0},
                                 {"op": "store", "pid": O1, "c": 0}],
        "delete_with_meta": [{"op": "store", "pid": T, "c": 0}, {"op": "smeta", "pid": T, "fmt": None, "d": 0},
                             {"op": "smeta", "pid": T, "fmt": FMT, "d": 1}],
        "smeta_new": [],
        "smeta_overwrite": [{"op": "smeta", "pid": T, "fmt": FMT, "d": 0}],
        "dmeta_one": [{"op": "smeta", "pid": T, "fmt": FMT, "d": 0}, {"op": "smeta", "pid": T, "fmt": None, "d": 1}],
        "dmeta_all": [{"op": "smeta", "pid": T, "fmt": FMT, "d": 0}, {"op": "smeta", "pid": T, "fmt": None, "d": 1}],
        "store_rebind": [{"op": "store", "pid": T, "c": 0}],
        "tag_rebind": [{"op": "store", "pid": T, "c": 0}],
        # a partial reference state the public API itself creates: both reference files, no data object
        "delete_refs_without_object": [{"op": "tag", "pid": T, "cid": {"of": 0}}],
        # a bystander was tagged to the cid BEFORE the upload (documented use): a reference list without a data object
        "tag_shared_noobj": [{"op": "tag", "pid": O1, "cid": {"of": 0}}],
        "store_joins_noobj": [{"op": "tag", "pid": O1, "cid": {"of": 0}}],
        # (not in TARGETS: used by C09 only) an object stored without a pid that the validation step then rejects and removes
        "dii_unref_wrong": [{"op": "store", "pid": None, "c": 0}],
    }
    return pre[kind]


def target_op(kind, variant=0):
    t = {
        "store_new": {"op": "store", "pid": T, "c": 0},
        "store_bytesio": {"op": "store", "pid": T, "c": 0, "kind": "bytesio"},
        "store_dup_unref": {"op": "store", "pid": T, "c": 0},
        "store_additional": {"op": "store", "pid": T, "c": 0},
        "tag_unref": {"op": "tag", "pid": T, "cid": {"of": 0}},
        "tag_shared": {"op": "tag", "pid": T, "cid": {"of": 0}},
        "tag_first_noobj": {"op": "tag", "pid": T, "cid": {"of": 0}},
        "delete_sole": {"op": "delete", "pid": T},
        "delete_shared": {"op": "delete", "pid": T},
        "delete_with_meta": {"op": "delete", "pid": T},
        "delete_listed_first": {"op": "delete", "pid": T},
        "delete_listed_middle": {"op": "delete", "pid": T},
        "delete_refs_without_object": {"op": "delete", "pid": T},
        "tag_shared_noobj": {"op": "tag", "pid": T, "cid": {"of": 0}},
        "store_joins_noobj": {"op": "store", "pid": T, "c": 0},
        "dii_unref_wrong": {"op": "dii", "c": 0},
        "smeta_new": {"op": "smeta", "pid": T, "fmt": FMT, "d": 1},
        "smeta_overwrite": {"op": "smeta", "pid": T, "fmt": FMT, "d": 1},
        "dmeta_one": {"op": "dmeta", "pid": T, "fmt": FMT},
        "dmeta_all": {"op": "dmeta", "pid": T, "fmt": None},
        "store_rebind": {"op": "store", "pid": T, "c": [0, 1][variant % 2]},
        "tag_rebind": {"op": "tag", "pid": T, "cid": [{"of": 0}, {"of": 1}][variant % 2]},
    }
    return dict(t[kind])


@st.composite
def scenarios(draw, kinds=None, big=True, layouts=False):
    kind = draw(st.sampled_from(kinds or TARGETS))
    cfg = draw(gen.store_cfgs(vary_layout=layouts))
    x = draw(st.one_of(gen.contents(max_small=24, big=False),
                       st.sampled_from([{"pat": "ab", "n": 4096}, {"pat": "cd", "n": 8192},
                                        {"pat": "ef01", "n": 3 * 8192 + 1}]) if big else gen.contents(max_small=24, big=False)))
    y = draw(gen.contents(max_small=12, big=False))
    d0 = draw(st.sampled_from([{"hex": "3c6f6c642f3e"}, {"pat": "6f", "n": 2 * 8192 + 5}]))
    d1 = draw(st.sampled_from([{"hex": "3c6e65772f3e"}, {"hex": ""}, {"pat": "6e", "n": 3 * 8192 + 1}]))
    # bystander activity around the precondition
    by = ops.weighted(
        (3, st.sampled_from([{"op": "store", "pid": O1, "c": 1}, {"op": "store", "pid": O2, "c": 1},
                             {"op": "store", "pid": O2, "c": 0}, {"op": "store", "pid": None, "c": 1}])),
        (2, st.sampled_from([{"op": "smeta", "pid": O1, "fmt": None, "d": 0}, {"op": "smeta", "pid": O2, "fmt": FMT, "d": 1},
                             {"op": "smeta", "pid": O1, "fmt": FMT, "d": 1}])))
    before = draw(st.lists(by, min_size=0, max_size=3))
    after = draw(st.lists(by, min_size=0, max_size=2))
    start = before + prerequisites(kind) + after
    return {"cfg": cfg, "contents": [x, y], "docs": [d0, d1], "start": start, "kind": kind,
            "target": target_op(kind, draw(st.integers(0, 1)))}


class Scenario:
    """Materialised scenario: start directory (template) + facts about the start state."""

    def __init__(self, case, ctx):
        self.case, self.ctx = case, ctx
        run = seq.Run(dict(case, ops=case["start"]), ctx)
        for op in case["start"]:
            run.step(op)
        self.run = run
        self.cfg = run.cfg
        self.template = run.root
        self.work = run.work
        self.alpha0 = run.alpha
        self.model0 = run.model
        self.contents, self.docs = run.contents, run.docs
        self.cpaths, self.dpaths = run.cpaths, run.dpaths
        self.n = 0
        # what every pid served before the call
        self.served0 = self.observe(run.store)

    def pids(self):
        return [T, O1, O2]

    def observe(self, store):
        obs = {}
        for p in self.pids():
            o = common.retrieve_bytes(store, p)
            obs[("obj", p)] = ("ok", o[1]) if is_ok(o) else ("err", o[1])
            for f in (None, FMT):
                o = common.retrieve_meta_bytes(store, p, f)
                obs[("meta", p, f)] = ("ok", o[1]) if is_ok(o) else ("err", o[1])
        return obs

    def fresh_copy(self):
        self.n += 1
        d = os.path.join(self.work, f"w{self.n}")
        shutil.copytree(self.template, d)
        return d

    def discard(self, d):
        shutil.rmtree(d, ignore_errors=True)

    def call_target(self, store, op=None):
        """Invoke the target call on `store`; returns the outcome."""
        op = op or self.case["target"]
        k = op["op"]
        if k == "store":
            import io
            if op.get("kind") == "bytesio":
                arg = io.BytesIO(self.contents[op["c"]])
            else:
                arg = self.cpaths[op["c"]]
            return call(store.store_object, op["pid"], arg)
        if k == "tag":
            return call(store.tag_object, op["pid"], self.cfg.digest(self.contents[op["cid"]["of"]]))
        if k == "delete":
            return call(store.delete_object, op["pid"])
        if k == "dii":
            import hashlib
            data = self.contents[op["c"]]
            om = common.hs().ObjectMetadata("HashStoreNoPid", self.cfg.digest(data), len(data),
                                            {a: hashlib.new(a, data).hexdigest() for a in common.DEFAULT_DIGESTS})
            wrong = hashlib.sha256(data + b"?").hexdigest()
            return call(store.delete_if_invalid_object, om, wrong, "sha256", len(data) or None)
        if k == "smeta":
            if op.get("fmt") is None:
                return call(store.store_metadata, op["pid"], self.dpaths[op["d"]])
            return call(store.store_metadata, op["pid"], self.dpaths[op["d"]], op["fmt"])
        if k == "dmeta":
            if op.get("fmt") is None:
                return call(store.delete_metadata, op["pid"])
            return call(store.delete_metadata, op["pid"], op["fmt"])
        raise ValueError(k)

    def bystander_problem(self, store, alpha, when):
        """Everything belonging to the other pids must be exactly as in the start state.
        Returns None or (harm code, text); harm codes: served | pidref | list-count | metadata."""
        cfg = self.cfg
        now = self.observe(store)
        for key, v in self.served0.items():
            if key[1] == T:
                continue
            if now[key] != v:
                if key[0] == "obj" and v == ("err", "RefsFileExistsButCidObjMissing") and now[key][0] == "ok" and \
                        self.alpha0["pidrefs"].get(cfg.H(key[1])) == cfg.digest(now[key][1]):
                    continue   # tagged before the upload; somebody has uploaded the bytes of that cid since: legitimately served now
                return ("served", f"{when}: {key[0]} of bystander {key[1]!r}"
                        f"{'' if key[0] == 'obj' else ' format ' + str(key[2])} was {_s(v)} and is now {_s(now[key])}")
        for p in (O1, O2):
            h = cfg.H(p)
            if alpha["pidrefs"].get(h) != self.alpha0["pidrefs"].get(h):
                return ("pidref", f"{when}: pid reference of bystander {p!r} changed")
            for c, l in self.alpha0["cidrefs"].items():
                if l.count(p) != alpha["cidrefs"].get(c, []).count(p):
                    return ("list-count", f"{when}: bystander {p!r} appears {alpha['cidrefs'].get(c, []).count(p)}x in the "
                            f"list of {c[:10]}.. (was {l.count(p)}x); list now {alpha['cidrefs'].get(c)}")
            d0 = {k: v for k, v in self.alpha0["metadata"].items() if k[0] == h}
            d1 = {k: v for k, v in alpha["metadata"].items() if k[0] == h}
            if d0 != d1:
                return ("metadata", f"{when}: metadata documents of bystander {p!r} changed")
        return None

    def summary(self):
        c = self.case
        return {"kind": c["kind"], "algo": c["cfg"]["algo"], "x_len": len(self.contents[0]),
                "start": [o["op"] + ":" + str(o.get("pid")) for o in c["start"]]}


def _s(v):
    return (v[0], seq._short(v[1]))
