"""Diagnosis aid (not part of any verdict): which lines and branches of the code under test do the checks execute?

Enabled by HSVERIF_COVERAGE=<dir>.  Uses sys.monitoring (Python 3.12): every LINE / BRANCH location reports once and is
then disabled, so the cost is negligible.  Each worker process - and each forked child, for what it saw after the fork - writes
<dir>/<pid>-<n>.json when it leaves; tools/coverage_gaps.py merges the files and lists what no check reached."""
import json
import os
import sys
import time

_DIR = os.environ.get("HSVERIF_COVERAGE")
_lines = set()
_arcs = set()
_base_lines = set()
_base_arcs = set()
_dsts = {}
_on = False


def start():
    global _on
    if not _DIR or _on or not hasattr(sys, "monitoring"):
        return
    mon = sys.monitoring
    tool = mon.COVERAGE_ID
    try:
        mon.use_tool_id(tool, "hsverif-cov")
    except ValueError:
        return

    def on_line(code, line):
        fn = code.co_filename
        if "/hashstore/" in fn:
            _lines.add((os.path.basename(fn), line))
        return mon.DISABLE

    def on_branch(code, src, dst):
        fn = code.co_filename
        if "/hashstore/" not in fn:
            return mon.DISABLE
        _arcs.add((os.path.basename(fn), code.co_qualname, code.co_firstlineno, src, dst))
        k = (id(code), src)
        s = _dsts.setdefault(k, set())
        s.add(dst)
        # DISABLE switches the *instruction* off: only once both directions of the branch were seen
        return mon.DISABLE if len(s) > 1 else None

    mon.register_callback(tool, mon.events.LINE, on_line)
    mon.register_callback(tool, mon.events.BRANCH, on_branch)
    mon.set_events(tool, mon.events.LINE | mon.events.BRANCH)
    os.register_at_fork(after_in_child=_after_fork)
    _on = True


def _after_fork():
    _base_lines.clear()
    _base_lines.update(_lines)
    _base_arcs.clear()
    _base_arcs.update(_arcs)


def dump():
    if not _on:
        return
    new_l = _lines - _base_lines
    new_a = _arcs - _base_arcs
    if not new_l and not new_a:
        return
    try:
        os.makedirs(_DIR, exist_ok=True)
        p = os.path.join(_DIR, f"{os.getpid()}-{time.time_ns()}.json")
        with open(p + ".tmp", "w", encoding="utf-8") as f:
            json.dump({"lines": sorted(new_l), "arcs": sorted(new_a)}, f)
        os.replace(p + ".tmp", p)
    except OSError:
        pass
