"""hsverif - property-based verification machinery for DataONEorg/hashstore (see /verif/DESIGN.md)."""
