"""E7 - fault injector: enumerates the fault sites of one call and injects OSError at each in turn."""
import errno as _errno
import os

from . import common, fsi
from .common import is_ok

ERRNOS = {"EIO": _errno.EIO, "ENOSPC": _errno.ENOSPC, "EACCES": _errno.EACCES, "ENOENT": _errno.ENOENT}


# operations that need free space (ENOSPC is a documented errno of each); removals, truncation and reads still work on a full disk
SPACE = {"open:w", "os.open:w", "f.write", "f.writelines", "f.flush", "f.close", "mkdir", "rename", "replace", "link", "symlink",
         "sendfile"}


def make_oserror(code, text, ev):
    """As the platform reports it: an error of a PATH-based call carries the path (`filename`), an error of a descriptor-based
    call - write / flush / close of an open file, flock, sendfile - carries none (`filename` is None)."""
    if ev.kind.startswith("f.") or ev.kind in ("flock", "os.write", "sendfile", "copy_file_range"):
        return OSError(code, text)
    return OSError(code, text, ev.dest)


def is_site(ev):
    """Mutating operations and opens (for reading or writing) are fault sites; stat-class probes are not."""
    return not ev.is_probe


LATE_KINDS = {"rename", "replace", "link"}   # operations whose failure may be REPORTED although they took effect (lost reply)


class Injector:
    def __init__(self, root, k, errno_name="EIO", sticky=False):
        self.pending_late = None
        self.root = os.path.realpath(root)
        self.k, self.errno_name, self.sticky = k, errno_name, sticky
        self.n = 0
        self.fired = None      # Event the fault was injected at
        self.bad_path = None
        self.later = 0         # later operations failed by stickiness

    def _raise(self, ev):
        code = ERRNOS[self.errno_name]
        raise make_oserror(code, os.strerror(code) + " [injected]", ev)

    def after(self, ev):
        """fsi 'after_path_op' hook: mode "late" lets the k-th rename / replace / link TAKE EFFECT and then reports EIO."""
        if self.pending_late is ev:
            self.pending_late = None
            self._raise(ev)

    def _tmp_file_of(self, ev):
        for p in ev.paths:
            rel = os.path.relpath(p, self.root).split(os.sep)
            if len(rel) == 3 and rel[1] == "tmp" and rel[0] in ("objects", "metadata", "refs") and os.path.isfile(p):
                return p
        return None

    def __call__(self, ev):
        if not is_site(ev):
            return
        if self.sticky == "vanish":
            # "a tmp reaper": right before the k-th operation on a file in one of the store's tmp directories that file is
            # REALLY removed by somebody else; nothing is injected - the operation then fails (or not) on its own
            if self.fired is not None:
                return
            p = self._tmp_file_of(ev)
            if p is None:
                return
            if self.n == self.k:
                self.fired = ev
                self.bad_path = p
                fsi.real("remove")(p)
            self.n += 1
            return
        if self.sticky == "late":
            if ev.kind not in LATE_KINDS or self.fired is not None:
                return
            if self.n == self.k:
                self.fired = ev
                self.bad_path = ev.dest
                self.pending_late = ev
            self.n += 1
            return
        if self.sticky == "full":
            # "the disk fills up": from the k-th space-consuming operation on, EVERY space-consuming operation fails
            if ev.kind not in SPACE:
                return
            if self.fired is not None:
                self.later += 1
                self._raise(ev)
            if self.n == self.k:
                self.fired = ev
                self.bad_path = ev.dest
                self._raise(ev)
            self.n += 1
            return
        if self.fired is not None:
            if self.sticky and self.bad_path in ev.paths:
                self.later += 1
                self._raise(ev)
            return
        if self.n == self.k:
            self.fired = ev
            self.bad_path = ev.dest
            self._raise(ev)
        self.n += 1

    def describe(self):
        ev = self.fired
        if self.sticky == "vanish":
            return (f"the temporary file {os.path.relpath(self.bad_path, self.root) if self.bad_path else '-'} removed by a third party "
                    f"right before site #{self.k} [{ev.brief(self.root) if ev else '-'}]")
        how = "reported AFTER the operation took effect (lost reply)" if self.sticky == "late" else \
            "from then on at every operation that needs space (disk full)" if self.sticky == "full" else \
            "persisting for the destination" if self.sticky else "once"
        return (f"{self.errno_name} {how} at site "
                f"#{self.k} [{ev.brief(self.root) if ev else '-'}]")


def path_class(root, ev):
    """Coarse class of the failing destination (for known-finding signatures)."""
    rel = os.path.relpath(ev.dest, os.path.realpath(root))
    parts = rel.split(os.sep)
    if len(parts) > 1 and parts[1] == "tmp":
        return parts[0] + "/tmp"
    if parts[0] == "refs" and len(parts) > 1:
        return "refs/" + parts[1]
    return parts[0]


def faulted_runs(sc, modes=(False, True), errnos=("EIO",), max_sites=400, store_factory=None, runner=None):
    """For every fault site x errno x mode of the scenario's target call: run it on a fresh copy of the
    start directory with the fault injected.  Yields (injector, store, directory, outcome); the caller
    judges and then the directory is discarded."""
    fsi.install()
    for sticky in modes:
        for en in errnos:
            k = 0
            while k < max_sites:
                d = sc.fresh_copy()
                store = store_factory(d) if store_factory else common.make_store(d, sc.cfg)
                inj = Injector(d, k, en, sticky)
                if runner is not None:
                    out = runner(store, d, inj)
                else:
                    with fsi.active(d, inj) as fctx:
                        if sticky == "late":
                            fctx.after_path_op = inj.after
                        out = sc.call_target(store)
                if inj.fired is None:
                    sc.discard(d)
                    break
                yield inj, store, d, out
                sc.discard(d)
                k += 1
