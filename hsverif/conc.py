"""Concurrent programs under owned schedules + the implementation-relative linearizability oracle."""
import hashlib
import itertools
import os
import shutil

from . import common, fsi, sched, seq
from .common import call, is_ok

ALREADY = {"HashStoreRefsAlreadyExists", "PidRefsAlreadyExistsError"}
IN_PROGRESS = "StoreObjectForPidAlreadyInProgress"


def norm_outcome(op, out):
    """Outcome of one call, normalised for comparison between executions."""
    if op.get("op") == "seq":
        # several calls issued one after the other by ONE caller: a vector of outcomes (calls not reached: "none")
        outs = list(out[1]) if out is not None and out[0] == "seq" else []
        return ("seq",) + tuple(norm_outcome(sub, outs[i] if i < len(outs) else None) for i, sub in enumerate(op["ops"]))
    if out is None:
        return ("none",)
    if out[0] == "abort":
        return ("blocked",)
    if is_ok(out):
        v = out[1]
        k = op["op"]
        if k == "store":
            return ("ok", v.cid, v.obj_size)
        if k in ("retrieve", "rmeta"):
            return ("ok", hashlib.sha256(v).hexdigest()[:16], len(v))
        if k == "hexd":
            return ("ok", v)
        return ("ok",)
    name = out[1]
    if name in ALREADY:
        name = "ALREADY-EXISTS"
    return ("err", name)


class World:
    """Start state (template directory) + the literal material calls refer to."""

    def __init__(self, case, ctx):
        run = seq.Run(dict(case, ops=case.get("start", [])), ctx)
        for op in case.get("start", []):
            run.step(op)
        self.run, self.cfg, self.template, self.work = run, run.cfg, run.root, run.work
        self.contents, self.docs, self.cpaths, self.dpaths = run.contents, run.docs, run.cpaths, run.dpaths
        self.n = 0
        self._seq_cache = {}

    def fresh_copy(self):
        self.n += 1
        d = os.path.join(self.work, f"x{self.n}")
        shutil.copytree(self.template, d)
        return d

    def om(self, c):
        data = self.contents[c]
        return common.hs().ObjectMetadata("HashStoreNoPid", self.cfg.digest(data), len(data),
                                          {a: hashlib.new(a, data).hexdigest() for a in common.DEFAULT_DIGESTS})

    def exec_call(self, store, op):
        k = op["op"]
        if k == "seq":
            return ("seq", [self.exec_call(store, sub) for sub in op["ops"]])
        if k == "store":
            kw = {}
            if op.get("cks") == "wrong":
                true = hashlib.sha256(self.contents[op["c"]]).hexdigest()
                kw.update(checksum=("0" if true[0] != "0" else "1") + true[1:], checksum_algorithm=op.get("cks_algo", "sha256"))
            if op.get("cks") == "right":
                kw.update(checksum=hashlib.new(op.get("cks_algo", "sha256"), self.contents[op["c"]]).hexdigest(),
                          checksum_algorithm=op.get("cks_algo", "sha256"))
            if op.get("size") == "wrong":
                kw.update(expected_object_size=len(self.contents[op["c"]]) + 1)
            if op.get("size") == "right":
                kw.update(expected_object_size=len(self.contents[op["c"]]))
            if op.get("add"):
                kw.update(additional_algorithm=op["add"])
            return call(store.store_object, op.get("pid"), self.cpaths[op["c"]], **kw)
        if k == "tag":
            cid = op["cid"]["raw"] if "raw" in op["cid"] else self.cfg.digest(self.contents[op["cid"]["of"]])
            if op["cid"].get("upper"):
                cid = cid.upper()
            return call(store.tag_object, op["pid"], cid)
        if k == "delete":
            return call(store.delete_object, op["pid"])
        if k == "dii":
            data = self.contents[op["c"]]
            true = hashlib.sha256(data).hexdigest()
            cks = true if op.get("cks", "right") == "right" else ("0" if true[0] != "0" else "1") + true[1:]
            return call(store.delete_if_invalid_object, self.om(op["c"]), cks, "sha256", len(data) or None)
        if k == "smeta":
            return call(store.store_metadata, op["pid"], self.dpaths[op["d"]], op.get("fmt")) if op.get("fmt") \
                else call(store.store_metadata, op["pid"], self.dpaths[op["d"]])
        if k == "rmeta":
            return common.retrieve_meta_bytes(store, op["pid"], op.get("fmt"))
        if k == "dmeta":
            return call(store.delete_metadata, op["pid"], op["fmt"]) if op.get("fmt") \
                else call(store.delete_metadata, op["pid"])
        if k == "retrieve":
            return common.retrieve_bytes(store, op["pid"])
        if k == "hexd":
            return call(store.get_hex_digest, op["pid"], op["algo"])
        raise ValueError(k)

    def final_state(self, d):
        a = common.alpha(d, self.cfg)
        a["cidrefs"] = {k: sorted(v) for k, v in a["cidrefs"].items()}
        return a

    # ---- sequential specification -----------------------------------------------------------
    def sequential_outcomes(self, calls, mp_mode=False):
        """{(outcome vector, alpha key)} over every sequential order of `calls` (by index)."""
        key = (tuple(sorted((i, repr(sorted(c.items(), key=str))) for i, c in calls)), mp_mode)
        if key in self._seq_cache:
            return self._seq_cache[key]
        res = {}
        # atoms: (position in `calls`, index inside a "seq" call or None, operation); a sequential order is a permutation of the
        # atoms that keeps the calls of one caller in their program order
        atoms = []
        for j, (i, op) in enumerate(calls):
            if op["op"] == "seq":
                atoms += [(j, n, sub) for n, sub in enumerate(op["ops"])]
            else:
                atoms.append((j, None, op))
        for perm in itertools.permutations(range(len(atoms))):
            seen, ok = {}, True
            for a in perm:
                j, n, _ = atoms[a]
                if n is not None:
                    if seen.get(j, -1) != n - 1:
                        ok = False
                        break
                    seen[j] = n
            if not ok:
                continue
            d = self.fresh_copy()
            store = sched.make_owned_store(d, self.cfg, mp_mode)
            outs = {}
            for a in perm:
                j, n, sub = atoms[a]
                o = norm_outcome(sub, self.exec_call(store, sub))
                if n is None:
                    outs[j] = o
                else:
                    outs.setdefault(j, []).append(o)
            vec = tuple(outs[j] if calls[j][1]["op"] != "seq" else ("seq",) + tuple(outs[j]) for j in range(len(calls)))
            res[(vec, common.alpha_key(self.final_state(d)))] = [(calls[atoms[a][0]][0], atoms[a][1]) for a in perm]
            shutil.rmtree(d, ignore_errors=True)
        self._seq_cache[key] = res
        return res


class Execution:
    __slots__ = ("outcomes", "raw", "alpha", "deadlock", "steps", "waited", "trace", "dir", "store",
                 "locks", "used_preemptions", "total_steps", "log", "stores", "extra", "saw_timed", "livelock")


def run_program(world, calls, order, preemptions, mp_mode=False, keep_dir=False, on=None, read_boundaries=False,
                instances=None, extra_on_op=None, expire_timed=False, source_reads=False, list_order=None):
    """Run the calls (one thread each) on a fresh copy of the start state under the given schedule
    (or, with on=(directory, store), on an existing store instance).  instances=[i, ...]: call n goes through
    store instance i (several FileHashStore objects opened on the same directory in this process)."""
    fsi.install()
    if on is not None:
        d, store = on
    else:
        d = world.fresh_copy()
        store = sched.make_owned_store(d, world.cfg, mp_mode)
    stores = [store]
    if instances:
        stores += [sched.make_owned_store(d, world.cfg, mp_mode) for _ in range(max(instances))]
    s = sched.Sched(d)
    s.ctx.read_boundaries = read_boundaries or source_reads
    if source_reads:
        s.ctx.extra_read_roots = [os.path.realpath(world.run.src), world.run.src]
    s.expire_timed_waits = expire_timed
    s.max_steps = sched.MAX_STEPS + 4 * sum(len(b) for b in list(world.contents) + list(getattr(world, "docs", []) or []))
    s.ctx.list_order = list_order
    if extra_on_op is not None:
        s.extra_on_op = extra_on_op() if isinstance(extra_on_op, type) or getattr(extra_on_op, "is_factory", False) else extra_on_op
    for n, op in enumerate(calls):
        s.add(lambda op=op, st=stores[instances[n] if instances else 0]: world.exec_call(st, op))
    ch = sched.preemption_chooser(order, preemptions)
    ex = Execution()
    ex.deadlock = None
    ex.livelock = False
    try:
        raw = s.run(ch)
    except sched.Deadlock as dl:
        ex.deadlock = dl.info
        ex.livelock = isinstance(dl, sched.Livelock)
        raw = [t.result for t in s.ts]
    ex.raw = raw
    ex.outcomes = tuple(norm_outcome(op, r) for op, r in zip(calls, raw))
    ex.alpha = world.final_state(d)
    ex.steps = [t.steps for t in s.ts]
    ex.waited = [t.waited for t in s.ts]
    ex.trace = s.trace
    ex.log = s.log
    ex.used_preemptions = ch.state["used"]
    ex.total_steps = s.total_steps
    ex.locks = sched.locks_left(store)
    for n, st in enumerate(stores[1:], 1):
        for k, v in sched.locks_left(st).items():
            ex.locks[f"instance{n}.{k}"] = v
    ex.dir, ex.store, ex.stores = d, store, stores
    ex.extra = getattr(s, "extra_on_op", None)
    ex.saw_timed = s.saw_timed_wait
    if not keep_dir:
        shutil.rmtree(d, ignore_errors=True)
        ex.dir = None
    return ex


def linearizable(world, calls, ex, mp_mode=False, widen=None):
    """None if the execution equals some sequential order (after dropping calls rejected with the
    documented already-in-progress outcome), else a description.  `widen(op, outcome, seq_outcome, all sequential outcomes of that call)`
    may accept additional per-call outcomes (C12's reader widening)."""
    indexed = list(enumerate(calls))
    dropped = []
    for i, op in indexed:
        if ex.outcomes[i] == ("err", IN_PROGRESS) and op["op"] == "store" and op.get("pid") is not None \
                and any(j != i and o["op"] == "store" and o.get("pid") == op.get("pid") for j, o in indexed):
            dropped.append(i)
    rest = [(i, op) for i, op in indexed if i not in dropped]
    spec = world.sequential_outcomes(rest, mp_mode)
    vec = tuple(ex.outcomes[i] for i, _ in rest)
    akey = common.alpha_key(ex.alpha)
    if (vec, akey) in spec:
        return None
    if widen is not None:
        per_call = [set(k[0][n] for k in spec) for n in range(len(rest))]
        for (svec, sakey) in spec:
            if sakey == akey and all(a == b or widen(op, a, b, per_call[n])
                                     for n, ((i, op), a, b) in enumerate(zip(rest, vec, svec))):
                return None
    # describe the closest sequential behaviour
    same_out = [k for k in spec if k[0] == vec]
    same_state = [k for k in spec if k[1] == akey]
    return {"outcomes": vec, "sequential_outcomes": sorted(set(k[0] for k in spec), key=str)[:6],
            "outcomes_match_some_order": bool(same_out), "state_matches_some_order": bool(same_state),
            "dropped_in_progress": dropped}


def classify_failure(world, calls, ex, why):
    """Coarse failure kind used in known-finding signatures."""
    if ex.deadlock:
        return "deadlock"
    a = ex.alpha
    cfg = world.cfg
    dangling = {c for c in a["pidrefs"].values() if c not in a["objects"]}
    # (1) a store_object whose pid ends up naming a missing object: classified by WHEN the object was removed
    #     relative to that call's data stage (existence probe / move into place) and its tagging
    for ti, (op, o) in enumerate(zip(calls, ex.outcomes)):
        if op["op"] != "store" or o == ("err", IN_PROGRESS):
            continue
        cid = cfg.digest(world.contents[op["c"]])
        if cid not in dangling or not op.get("pid") or a["pidrefs"].get(cfg.H(op["pid"])) != cid:
            continue      # only a store whose OWN pid is left naming the missing object
        ph = _stale_probe_phase(world, ti, ex, cid)
        if ph:
            phase, tr = ph
            rop = calls[tr] if tr is not None and tr < len(calls) else {}
            who = ("dii" if rop.get("op") == "dii" else
                   "delete-of-the-same-pid" if rop.get("op") == "delete" and rop.get("pid") == op.get("pid") else
                   "delete-of-another-pid" if rop.get("op") == "delete" else str(rop.get("op")))
            return f"object-removed-{phase}/by-{who}"
    # (2) a store_object that returned normally but whose pid now names a missing object (no event log, or
    #     another mechanism)
    for ti, (op, o) in enumerate(zip(calls, ex.outcomes)):
        # (without an event log - OS-scheduled workers - also a store whose tagging was REJECTED counts: its data stage may
        # have found the object in place before the remover ran, which is the same window)
        if op["op"] == "store" and op.get("pid") and (o[0] == "ok" or (not ex.log and o != ("err", IN_PROGRESS))):
            cid = a["pidrefs"].get(cfg.H(op["pid"]))
            if cid is not None and cid not in a["objects"]:
                if op["pid"] in a["cidrefs"].get(cid, []):
                    return "refs-complete-object-missing/object-removed-" + removal_phase(world, ti, ex, cid)
                return "pid-ref-without-list-and-object"
    seq_errs = set()
    for vec in why["sequential_outcomes"]:
        for o in vec:
            if o[0] == "err":
                seq_errs.add(o[1])
    for o in ex.outcomes:
        if o[0] == "err" and o[1] not in seq_errs:
            return "unexpected-error:" + o[1]
    if any(r.endswith("_delete") for r in a["residue"]):
        return "delete-marker-left"
    if not why["state_matches_some_order"]:
        return "state-unreachable-sequentially"
    return "outcome-state-combination-unreachable"


PUBLISH_KINDS = {"rename", "replace", "open:w", "os.open:w", "f.write", "f.writelines", "f.truncate", "f.flush", "flock", "f.close",
                 "link", "symlink", "sendfile"}


def _fs_events(ex):
    for n, e in enumerate(ex.log):
        if len(e) >= 4 and e[1] == "fs":
            yield n, e[0], e[2], e[3]


def _stale_probe_phase(world, ti, ex, cid):
    """For the store_object thread ti whose pid is left naming the missing object `cid`: when the object left
    its permanent address relative to that thread's DATA STAGE (its existence probe of / its move into the
    address) and its TAGGING (its operations under refs/):
    between-data-stage-and-tagging | during-tagging | after-tagging | before-data-stage.  None without a log."""
    objrel = world.cfg.obj_rel(cid)
    data = removed = remover = refs_first = refs_last = None
    for n, t, kind, paths in _fs_events(ex):
        if t == ti and paths and ((kind in ("stat", "stat.strict") and paths[0] == objrel) or
                                  (kind in ("rename", "replace") and paths[-1] == objrel)):
            data = n
        if kind in ("rename", "replace", "remove", "unlink") and paths and paths[0] == objrel:
            removed, remover = n, t
        # tagging = PUBLISHING references: writes to / renames into refs/pids or refs/cids (creating shard
        # directories or temp files under refs/ is only preparation, and refactorings may move it around)
        if t == ti and paths and kind in PUBLISH_KINDS and (paths[-1].startswith(os.path.join("refs", "pids") + os.sep)
                                                            or paths[-1].startswith(os.path.join("refs", "cids") + os.sep)):
            if refs_first is None:
                refs_first = n
            refs_last = n
    if data is None or removed is None:
        return None
    if removed < data:
        return "before-data-stage", remover
    if refs_first is None or removed < refs_first:
        return "between-data-stage-and-tagging", remover
    return ("after-tagging" if removed > refs_last else "during-tagging"), remover


def removal_phase(world, ti, ex, cid):
    """When, relative to the storing thread's tagging (its mutating operations under refs/), the
    object left its permanent address: before-tagging | during-tagging | after-tagging | unknown."""
    objrel = world.cfg.obj_rel(cid)
    removed = None
    tag_first = tag_last = None
    for n, t, kind, paths in _fs_events(ex):
        if kind in ("rename", "replace", "remove", "unlink") and paths and paths[0] == objrel and removed is None:
            removed = n
        if t == ti and paths and paths[-1].startswith("refs" + os.sep) and kind not in ("stat", "stat.strict", "lstat", "open:r", "os.open:r",
                                                                                      "access", "listdir", "scandir", "mkdir"):
            if tag_first is None:
                tag_first = n
            tag_last = n
    if removed is None or tag_first is None:
        return "unknown"
    if removed < tag_first:
        return "before-tagging"
    if removed > tag_last:
        return "after-tagging"
    return "during-tagging"


def op_pattern(op, world):
    """Call pattern with identifiers abstracted (for signatures / distinct keys)."""
    k = op["op"]
    if k == "seq":
        return "seq[" + ";".join(op_pattern(sub, world) for sub in op["ops"]) + "]"
    if k == "store":
        odd = "".join(f",{a}!" for a in ("cks", "size") if op.get(a) == "wrong") + (",add" if op.get("add") else "")
        return f"store({'pid' if op.get('pid') else 'None'},c{op['c']}{odd})"
    if k == "tag":
        return f"tag(c{op['cid'].get('of', 'never')}{'^' if op['cid'].get('upper') else ''})"
    if k == "dii":
        return f"dii(c{op['c']},{op.get('cks', 'right')})"
    if k in ("smeta", "rmeta", "dmeta"):
        return f"{k}({'fmt' if op.get('fmt') else 'default' if k != 'dmeta' else 'all'})"
    return k


def single_preemption_schedules(world, calls, mp_mode=False, max_preempt=1, limit=None, firsts=(0, 1),
                                i_mod=(1, 0), **rp):
    """Enumerate schedules with <= max_preempt preemptions for a 2-thread program:
    yields (order, preemptions, Execution)."""
    n = len(calls)
    assert n == 2
    m, k = i_mod
    for first in firsts:
        order = [first, 1 - first]
        if k == 0:
            ex0 = run_program(world, calls, order, [], mp_mode, **rp)
            yield order, [], ex0
        if max_preempt < 1:
            continue
        i = 0
        while True:
            i += 1
            if limit and i > limit:
                break
            ex = run_program(world, calls, order, [(i, 0)], mp_mode, **rp)
            if ex.used_preemptions == 0:
                break
            if i % m != k:
                continue
            yield order, [(i, 0)], ex
            if max_preempt >= 2:
                j = 1
                while True:
                    ex2 = run_program(world, calls, order, [(i, 0), (j, 0)], mp_mode, **rp)
                    if ex2.used_preemptions < 2:
                        break
                    yield order, [(i, 0), (j, 0)], ex2
                    j += 1
                    if limit and j > limit:
                        break


# ---- conflict-directed enumeration (schedules up to commutation of independent steps) ---------------

_TREE_OPS = {"mkdir", "rmdir", "rename", "replace", "listdir", "scandir", "remove", "unlink"}


def _is_tmp(p):
    parts = p.split(os.sep)
    return len(parts) >= 2 and parts[-2] == "tmp" and parts[-1].startswith("tmp")


class Footprint:
    """What one thread has been seen to touch (union over every execution of the program observed so far):
    lock ids, paths read, paths written, paths of directory-structure operations."""

    def __init__(self):
        self.locks, self.reads, self.writes, self.trees = set(), set(), set(), set()

    def add(self, entry):
        if entry[0] != "fs":
            self.locks.add(entry[1])
            return
        kind, paths = entry[1], entry[2]
        w = kind in fsi.MUTATING
        for p in paths:
            if _is_tmp(p):
                continue                      # private temp names never coincide between threads
            (self.writes if w else self.reads).add(p)
            if kind in _TREE_OPS:
                self.trees.add(p)

    def conflicts(self, entry):
        """May `entry` (an operation of the OTHER thread) not commute with something this thread does?"""
        if entry[0] != "fs":
            return entry[1] in self.locks
        kind, paths = entry[1], entry[2]
        w = kind in fsi.MUTATING
        for p in paths:
            if _is_tmp(p):
                continue
            if p in self.writes or (w and p in self.reads):
                return True
            # directory structure: an operation on an ancestor (mkdir / rmdir / rename / listing) against anything below it
            for q in self.trees:
                if p != q and p.startswith(q + os.sep) and (w or q in self.writes):
                    return True
            if kind in _TREE_OPS:
                pre = p + os.sep
                if any(x.startswith(pre) for x in (self.writes if not w else self.writes | self.reads)):
                    return True
        return False


def _mask(entry):
    if entry is None:
        return None
    if entry[0] != "fs":
        return (entry[0],)
    return ("fs", entry[1], tuple("<tmp>" if _is_tmp(p) else p for p in entry[2]))


def conflict_directed_schedules(world, calls, max_preempt=3, mp_mode=False, seed_logs=(), firsts=(0, 1), budget=None, **rp):
    """2-thread program: every schedule with <= max_preempt preemptions in which each preemption lands
    immediately before an operation that does not commute with something the other thread does (same lock, same
    path with a write involved, directory-structure operation on an ancestor).  Preempting anywhere else is
    equivalent, up to commutation of independent steps, to preempting at the next such operation.  The next
    candidate positions are read off the execution log of the prefix run itself.  Yields (order, preemptions, Execution, info)."""
    assert len(calls) == 2
    fp = [Footprint(), Footprint()]

    def learn(log):
        for e in log:
            fp[e[0]].add(e[1:])
    for lg in seed_logs:
        learn(lg)
    stats = {"runs": 0, "mispredicted": 0, "pruned": 0}

    def explore(order, prefix, ex, depth):
        if depth >= max_preempt or (budget is not None and stats["runs"] >= budget):
            return
        if depth == 0:
            pos, running = 0, order[0]
        else:
            pre_entries = [t for t in ex.trace if t[0] == "preempt"]
            if len(pre_entries) < depth:
                return
            pos, running = pre_entries[depth - 1][5], pre_entries[depth - 1][3]
        fresh = not any(e[0] == running for e in ex.log[:pos])
        seg = []
        for e in ex.log[pos:]:
            if e[0] != running:
                break
            seg.append(e[1:])
        other = fp[1 - running]
        for m, entry in enumerate(seg, 1):
            n = m - 1 if fresh else m - 2
            if n < (1 if not fresh or depth > 0 else 1):
                continue
            if not other.conflicts(entry):
                stats["pruned"] += 1
                continue
            pre = prefix + [(n, 0)]
            ex2 = run_program(world, calls, order, pre, mp_mode, **rp)
            stats["runs"] += 1
            learn(ex2.log)
            if ex2.used_preemptions != depth + 1:
                continue
            got = [t for t in ex2.trace if t[0] == "preempt"][depth][4]
            if _mask(got) != _mask(entry):
                stats["mispredicted"] += 1
            yield order, pre, ex2, stats
            yield from explore(order, pre, ex2, depth + 1)
            if budget is not None and stats["runs"] >= budget:
                return

    for first in firsts:
        order = [first, 1 - first]
        ex0 = run_program(world, calls, order, [], mp_mode, **rp)
        learn(ex0.log)
    for first in firsts:
        order = [first, 1 - first]
        ex0 = run_program(world, calls, order, [], mp_mode, **rp)
        stats["runs"] += 1
        yield order, [], ex0, stats
        yield from explore(order, [], ex0, 0)
