"""C09 - permanent files are never observable half-written."""
import hashlib
import os

from hypothesis import strategies as st

from .. import common, fsi, gen, scen, seq
from ..common import call, is_ok

ID = "C09"
LEVEL = "fault_enumeration"
RULE = ("Hypothesis draws a scenario (store algorithm, content / document sizes incl. 1 buffer and 3 buffers + 1, "
        "generated start state, one call from {store_object new / duplicate / additional pid / in-memory "
        "stream, tag_object, delete_object sole / shared / with metadata, store_metadata new / overwrite, "
        "delete_metadata}). The call runs with an observer at EVERY file-system boundary (before each "
        "stat/open/write/flush/close/rename/remove/mkdir/flock...) and after the call - the instants at which "
        "a concurrent reader or a post-crash inspector could look. At each instant: every file at a "
        "permanent object address hashes to its name; every metadata document at a permanent address is "
        "byte-identical to a version supplied by some store_metadata call; every pid reference holds exactly "
        "one digest-length hex cid of the scenario; and retrieve_object / retrieve_metadata issued through a "
        "second store instance return complete bytes or a not-found class error. One third of the scenarios run with "
        "short writes (every unbuffered or fd-level write takes only part of its buffer, as at a quota limit). "
        "evaluations = observations. "
        "Non-trivial = observation strictly inside a call that creates, replaces or removes a permanent file, "
        "content >= 1 buffer; distinct key = (call kind, boundary kind, index, size class)."
        ' Enumerated (round 9): an object / a document of 64 MiB + 1 block + 1 byte is removed (rejected by delete_if_invalid_object, its sole pid deleted, delete_metadata) or overwritten; observed at every boundary like the generated scenarios.')
EXHAUSTIVE_NOTE = "within each scenario every boundary of the call is an observation point"
ASSUMPTIONS = ["observation granularity = Python-level file-system operations of the calling process",
               "process death loses only user-space buffers, which an observer of the disk cannot see either"]
KINDS = ["store_new", "store_dup_unref", "store_additional", "store_bytesio", "tag_unref", "tag_shared",
         "delete_sole", "delete_shared", "delete_with_meta", "delete_listed_first", "delete_listed_middle", "smeta_new", "smeta_overwrite", "dmeta_one", "dmeta_all"]
NOTFOUND = {"PidRefsDoesNotExist", "OrphanPidRefsFileFound", "PidNotFoundInCidRefsFile",
            "RefsFileExistsButCidObjMissing", "ValueError", "FileNotFoundError"}


def examples(tier):
    return 1200 if tier == "quick" else 40000


def strategy(tier):
    from hypothesis import strategies as st
    return st.tuples(scen.scenarios(kinds=KINDS), st.sampled_from([False, False, True])).map(
        lambda t: dict(t[0], short_writes=t[1]))


HUGE = 64 * 1024 * 1024 + 8192 + 1


def enumerate_cases(tier):
    """Removal (and replacement) of files far larger than anything else in the checks - sizes at which an implementation may
    switch to another way of writing or removing a file (step-wise truncation, chunked copies): an object of 64 MiB + 1 block + 1
    byte disappears from its address in a single step like any other; so does a metadata document of that size."""
    base = {"cfg": {"algo": "SHA-256", "depth": 3, "width": 2}, "contents": [{"pat": "5a41", "n": HUGE}, {"hex": "79"}],
            "docs": [{"pat": "3c6d", "n": HUGE}, {"hex": "3c6e65772f3e"}], "short_writes": False, "huge": True}
    for kind in ("dii_unref_wrong", "delete_sole", "dmeta_one", "smeta_overwrite"):
        yield dict(base, kind=kind, start=scen.prerequisites(kind), target=scen.target_op(kind, 0))
    # "during any API call" - also one whose file-system operation fails: the k-th rename / replace / link of the call takes
    # effect and then reports EIO (a lost reply), or fails plainly; whatever the call does next (retry, clean-up, roll-back) is
    # observed at every boundary like the rest of it
    small = {"cfg": {"algo": "SHA-256", "depth": 2, "width": 2}, "contents": [{"pat": "6f62", "n": 2 * 8192 + 3}, {"hex": "79"}],
             "docs": [{"pat": "3c6f", "n": 2 * 8192 + 5}, {"pat": "3c6e", "n": 8192 + 1}], "short_writes": False}
    for kind in ("smeta_overwrite", "smeta_new", "store_new", "store_additional", "tag_unref", "delete_with_meta"):
        # (only "late": a rename that plainly FAILS makes shutil.move fall back to copy + unlink - the degradation of a staging area
        #  on another file system, which the property's anchor excludes; HEAD then writes the document in place, DESIGN section 8)
        for mode in ("late",):
            for k in range(8):
                yield dict(small, kind=kind, start=scen.prerequisites(kind), target=scen.target_op(kind, 0), fault_mode=mode, fault_k=k)


def case_cost(case):
    return 50 if case.get("huge") else 1


def run_case(case, ctx):
    fsi.install()
    sc = scen.Scenario(case, ctx)
    cfg = sc.cfg
    d = sc.fresh_copy()
    store = common.make_store(d, cfg)
    reader = common.make_store(d, cfg)
    versions = {hashlib.sha256(b).hexdigest() for b in sc.docs}
    cids = {cfg.digest(b) for b in sc.contents}
    contents = set(sc.contents)
    docs = set(sc.docs)
    state = {"n": 0, "mut": 0}
    X = sc.contents[0]
    big = len(X) >= 4096 or any(len(b) >= 4096 for b in sc.docs)
    ctx.evaluations -= 1

    def observe(ev):
        i = state["n"]
        state["n"] += 1
        where = f"before boundary #{i} [{ev.brief(os.path.realpath(d)) if ev else 'end of call'}] of {case['kind']}"
        a = common.alpha(d, cfg)
        ctx.count()
        sig = {"target": case["kind"]}
        for cid, (n, dig) in a["objects"].items():
            if dig != cid:
                ctx.violation("partial-object", f"{where}: the file at the permanent address of {cid[:16]}.. holds "
                              f"{n} bytes that do not hash to its name; scenario {sc.summary()}", sig)
        for key, h in a["metadata"].items():
            if h not in versions:
                ctx.violation("partial-metadata", f"{where}: metadata document {key[1][:16]}.. is not a complete "
                              f"version supplied by any store_metadata call; scenario {sc.summary()}", sig)
        for h, txt in a["pidrefs"].items():
            if txt not in cids:
                ctx.violation("partial-pid-ref", f"{where}: pid reference {h[:16]}.. holds {txt[:80]!r}, not one "
                              f"complete cid; scenario {sc.summary()}", sig)
        for p in (scen.T, scen.O1):
            o = common.retrieve_bytes(reader, p)
            if not is_ok(o) and o[1] == "ObserverWouldBlock":
                ctx.classify("reader would have waited for a file lock")   # a waiting reader observes nothing
                continue
            if is_ok(o) and o[1] not in contents:
                ctx.violation("reader-saw-partial-object", f"{where}: retrieve_object({p!r}) returned "
                              f"{seq._short(o[1])}; scenario {sc.summary()}", sig)
            if not is_ok(o) and o[1] not in NOTFOUND:
                ctx.violation("reader-error", f"{where}: retrieve_object({p!r}) raised {o[1]}: {o[2][:120]}", dict(sig, err=o[1]))
            for f in (None, scen.FMT):
                o = common.retrieve_meta_bytes(reader, p, f)
                if is_ok(o) and o[1] not in docs:
                    ctx.violation("reader-saw-partial-metadata", f"{where}: retrieve_metadata({p!r}, {f}) returned "
                                  f"{seq._short(o[1])}; scenario {sc.summary()}", sig)
                if not is_ok(o) and o[1] not in NOTFOUND:
                    ctx.violation("reader-error", f"{where}: retrieve_metadata({p!r}) raised {o[1]}: {o[2][:120]}", dict(sig, err=o[1]))
        if ev is not None and state["mut"] >= 1 and big:
            ctx.nontrivial([case["kind"], ev.kind, i, gen.size_class(len(X))])
        if ev is not None and ev.is_mutating:
            state["mut"] += 1

    # a Violation raised inside the callback would be swallowed by the code under test (it runs inside the
    # store's try/except blocks): keep the first one and raise it after the call has returned
    pending = []

    def guarded(ev):
        from ..runner import Violation
        if pending:
            return
        try:
            observe(ev)
        except Violation as v:
            pending.append(v)

    inj = None
    cb = guarded
    if case.get("fault_mode"):
        from .. import fault
        inj = fault.Injector(d, case["fault_k"], "EIO", "late" if case["fault_mode"] == "late" else False)

        def cb(ev):
            guarded(ev)
            inj(ev)
    with fsi.active(d, cb) as fctx:
        if inj is not None and case["fault_mode"] == "late":
            fctx.after_path_op = inj.after
        if case.get("short_writes"):
            # environment variant: every unbuffered / fd-level write takes only part of what it is given
            fctx.write_hook = lambda n: max(1, n - max(1, n // 3))
        out = sc.call_target(store)
    if pending:
        raise pending[0]
    observe(None)
    if inj is not None:
        if inj.fired is None:
            ctx.classify("fault-site-index-beyond-the-call")
            return
        ctx.classify("observed-under-" + case["fault_mode"] + "-failure")
        ctx.nontrivial([case["kind"], case["fault_mode"], case["fault_k"], inj.fired.kind, "ok" if is_ok(out) else out[1]])
    ctx.classify("target=" + case["kind"])
    ctx.classify("outcome=" + ("ok" if is_ok(out) else out[1]))
    if big:
        ctx.classify("content>=1-buffer")
    ctx.sample({"scenario": sc.summary(), "observations": state["n"] + 1, "mutating_boundaries": state["mut"],
                "outcome": "ok" if is_ok(out) else out[1]})
