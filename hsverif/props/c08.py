"""C08 - calls always terminate and never leave an identifier locked."""
import itertools
import shutil

from hypothesis import strategies as st

from .. import common, conc, fault, fsi, scen, sched, seq
from ..common import is_ok
from . import c07, c12

ID = "C08"
LEVEL = "exploration"
RULE = ("Three generated families judged by this property's own oracle. (a) every 2-thread program and schedule of "
        "the C07 and C12 enumerations (all pairs x starts x every single-preemption schedule); (b) 'two holders + two "
        "waiters' 4-thread programs for each lock family (object pid, cid, reference pid, metadata document) x "
        "enumerated hold points x both wait orders, and Hypothesis-generated 3/4-thread programs with <=5 preemptions; "
        "(c) every fault site (EIO, one-off and persisting) of the C13 scenarios. Oracle: (i) the owned scheduler "
        "never reaches 'some thread blocked, none runnable' (structural deadlock, not a time-out); (ii) at "
        "quiescence no locked-identifier list of the store instance is non-empty; (iii) follow-up calls "
        "(delete_object, store_object, store_metadata, delete_metadata, tag_object on every identifier involved) run "
        "on the SAME store instance complete without blocking and a follow-up store_object is not rejected as "
        "'already in progress'. evaluations = controlled / faulted executions. Non-trivial = some thread actually "
        "waited on a condition or lock, or a fault was injected while an identifier was locked; distinct key = "
        "(family, program, schedule or fault site)."
        ' Further families: wake chain (a call that waits for one identifier while holding another, a second waiter, an unrelated release) for the document, pid and cid locks; fault mode "late" (the k-th rename / replace takes effect and then reports EIO).'
        ' Round 9: an execution that passes 30 000 scheduling points without completing is a verdict (a call that spins for ever; time.sleep of the code under test is a scheduling point, not a wait); family nested cids: tag_object with cids that are no digests and are shard-path prefixes of one another (the second call cannot succeed and must still return, leave nothing locked, and the follow-ups must complete).')
EXHAUSTIVE_NOTE = "families (a) and (c) enumerate completely within each program / scenario; (b) enumerates hold points"
ASSUMPTIONS = ["'every call returns' is decided as: no explored execution ends with a blocked thread (safety over owned "
               "schedules); starvation under unbounded unfair schedules is out of reach",
               "condition-variable notify wakes waiters in FIFO order (as threading.Condition does)"]
SHRINK_BUDGET = 60.0


def examples(tier):
    return 240 if tier == "quick" else 20000


def case_cost(case):
    return {"pairs07": 3, "pairs12": 2, "hw": 2, "fault": 4, "inst2": 2, "wake-chain": 2}.get(case["family"], 1)


# ---- 'two holders + two waiters' programs --------------------------------------------------------
HW = {
    # family: (start ops, holder A, holder B, waiter A, waiter B)
    "object-pid": ([], {"op": "store", "pid": "p", "c": 0}, {"op": "store", "pid": "q", "c": 1},
                   {"op": "delete", "pid": "p"}, {"op": "delete", "pid": "q"}),
    "cid": ([{"op": "store", "pid": None, "c": 0}, {"op": "store", "pid": None, "c": 1}],
            {"op": "tag", "pid": "p", "cid": {"of": 0}}, {"op": "tag", "pid": "q", "cid": {"of": 1}},
            {"op": "tag", "pid": "r", "cid": {"of": 0}}, {"op": "tag", "pid": "s", "cid": {"of": 1}}),
    "reference-pid": ([], {"op": "tag", "pid": "p", "cid": {"of": 0}}, {"op": "tag", "pid": "q", "cid": {"of": 1}},
                      {"op": "tag", "pid": "p", "cid": {"of": 1}}, {"op": "tag", "pid": "q", "cid": {"of": 0}}),
    "metadata-doc": ([], {"op": "smeta", "pid": "p", "fmt": "f", "d": 0}, {"op": "smeta", "pid": "q", "fmt": "f", "d": 0},
                     {"op": "smeta", "pid": "p", "fmt": "f", "d": 1}, {"op": "smeta", "pid": "q", "fmt": "f", "d": 1}),
    "delete-vs-delete": ([{"op": "store", "pid": "p", "c": 0}, {"op": "store", "pid": "q", "c": 1}],
                         {"op": "delete", "pid": "p"}, {"op": "delete", "pid": "q"},
                         {"op": "delete", "pid": "p"}, {"op": "delete", "pid": "q"}),
}
BASE = {"cfg": {"algo": "SHA-256", "depth": 2, "width": 2}, "contents": [{"hex": "5858585858"}, {"hex": "5959"}],
        "docs": [{"hex": "6430"}, {"hex": "6431"}]}

# 'wake chain': H holds identifier B (parked inside its critical section); W1 is a call that needs SEVERAL identifiers (it may take
# A and then wait for B while holding A); W2 wants A and queues up; P releases an UNRELATED identifier of the same kind (its
# notification goes to the head of the queue); W1 re-checks and waits again; then H finishes.  A single notify() that reaches the
# wrong waiter is harmless as long as nobody waits WHILE HOLDING something another waiter needs - this family builds that shape.
_TWO_DOCS = [{"op": "smeta", "pid": "p", "fmt": "f", "d": 0}, {"op": "smeta", "pid": "p", "fmt": "fmt:1", "d": 0}]
WAKE_CHAIN = {
    "docs-f-first": (_TWO_DOCS, {"op": "smeta", "pid": "p", "fmt": "f", "d": 1}, {"op": "dmeta", "pid": "p", "fmt": None},
                     {"op": "smeta", "pid": "p", "fmt": "fmt:1", "d": 1}, {"op": "smeta", "pid": "q", "fmt": "f", "d": 1}),
    "docs-f-last": (_TWO_DOCS, {"op": "smeta", "pid": "p", "fmt": "fmt:1", "d": 1}, {"op": "dmeta", "pid": "p", "fmt": None},
                    {"op": "smeta", "pid": "p", "fmt": "f", "d": 1}, {"op": "smeta", "pid": "q", "fmt": "f", "d": 1}),
    "docs-delete-object-f-first": ([{"op": "store", "pid": "p", "c": 0}] + _TWO_DOCS, {"op": "smeta", "pid": "p", "fmt": "f", "d": 1},
                                   {"op": "delete", "pid": "p"}, {"op": "smeta", "pid": "p", "fmt": "fmt:1", "d": 1},
                                   {"op": "smeta", "pid": "q", "fmt": "f", "d": 1}),
    "docs-delete-object-f-last": ([{"op": "store", "pid": "p", "c": 0}] + _TWO_DOCS, {"op": "smeta", "pid": "p", "fmt": "fmt:1", "d": 1},
                                  {"op": "delete", "pid": "p"}, {"op": "smeta", "pid": "p", "fmt": "f", "d": 1},
                                  {"op": "smeta", "pid": "q", "fmt": "f", "d": 1}),
    "cid-behind-pid": ([{"op": "store", "pid": "q", "c": 0}, {"op": "store", "pid": None, "c": 1}], {"op": "tag", "pid": "p", "cid": {"of": 0}},
                       {"op": "delete", "pid": "q"}, {"op": "delete", "pid": "q"}, {"op": "tag", "pid": "r", "cid": {"of": 1}}),
}


def enumerate_cases(tier):
    seen = set()
    for case in c07.enumerate_cases("quick"):
        if case["mode"] != "enum" and case.get("family") != "holder-waiter-passer-by":
            continue                      # (3-thread shapes and deeper enumerations are covered by this check's own families / by C07)
        key = (case["start_name"], str(case["calls"]))
        if key in seen:
            continue                      # the 2-preemption slices of C07 repeat the same program
        seen.add(key)
        case = {k: v for k, v in case.items() if k not in ("firsts", "i_mod")}
        yield dict(case, family="pairs07", all_followups=(tier == "thorough"))
    for case in c12.enumerate_cases("quick"):
        if case.get("max_preempt", 1) >= 2:
            if case.get("i_mod", [1, 0])[1] != 0 or case.get("firsts") != [0]:
                continue
            case = {k: v for k, v in case.items() if k not in ("firsts", "i_mod")}
            case["max_preempt"] = 1
        yield dict(case, family="pairs12")
    holds = (3, 6, 10, 16, 24, 34) if tier == "quick" else tuple(range(2, 50, 2))
    for fam, (start, ha, hb, wa, wb) in HW.items():
        for a in holds:
            for b in holds[:3] if tier == "quick" else holds[::3]:
                for waiters_first in ("B", "A"):
                    yield dict(BASE, family="hw", hw=fam, start_name=fam, start=start, hold=[a, b],
                               waiters_first=waiters_first)
    for fam in WAKE_CHAIN:
        for a in (range(2, 20, 2) if tier == "quick" else range(1, 40)):
            yield dict(BASE, family="wake-chain", chain=fam, start_name=fam, start=WAKE_CHAIN[fam][0], hold=a)
    for kind in scen.TARGETS:
        for algo in (("SHA-256",) if tier == "quick" else ("SHA-256", "MD5")):
            yield {"family": "fault", "cfg": {"algo": algo, "depth": 2, "width": 2},
                   "contents": [{"pat": "ab", "n": 5000}, {"hex": "5959"}], "docs": [{"hex": "6f6c64"}, {"hex": "6e6577"}],
                   "start": scen.prerequisites(kind) + [{"op": "store", "pid": scen.O1, "c": 1}], "kind": kind,
                   "target": scen.target_op(kind, 0)}
    yield from _extra_cases(tier)


MENU4 = c07.MENU + [{"op": "smeta", "pid": "p", "fmt": "f", "d": 0}, {"op": "dmeta", "pid": "p", "fmt": None},
                    {"op": "store", "pid": "q", "c": 1}, {"op": "tag", "pid": "r", "cid": {"of": 0}}]


# calls that are REJECTED (odd but possible arguments): a rejected call, too, must leave nothing locked
ODD = [{"op": "tag", "pid": "p", "cid": {"of": 0, "upper": True}}, {"op": "tag", "pid": "n", "cid": {"of": 0, "upper": True}},
       {"op": "tag", "pid": "n", "cid": {"raw": "0" * 64}}, {"op": "tag", "pid": "a b", "cid": {"of": 0}},
       {"op": "tag", "pid": "n", "cid": {"raw": "sha256.v1.deadbeef"}}, {"op": "tag", "pid": "n", "cid": {"raw": "dead.beef"}},
       {"op": "store", "pid": "n", "c": 0, "cks": "wrong"}, {"op": "store", "pid": "n", "c": 1, "size": "wrong"},
       {"op": "store", "pid": "p", "c": 0, "cks": "wrong"}, {"op": "store", "pid": "n", "c": 0, "add": "sm3"},
       {"op": "store", "pid": "n", "c": 0, "cks": "wrong", "cks_algo": "sm3"},
       {"op": "store", "pid": " ", "c": 0}, {"op": "delete", "pid": "never-stored"}, {"op": "delete", "pid": "a\tb"},
       {"op": "smeta", "pid": "p", "fmt": " ", "d": 0}, {"op": "dmeta", "pid": "never-stored", "fmt": "f"},
       {"op": "dmeta", "pid": "never-stored", "fmt": None}, {"op": "hexd", "pid": "p", "algo": "sm3"},
       {"op": "hexd", "pid": "never-stored", "algo": "md5"}, {"op": "retrieve", "pid": "never-stored"},
       {"op": "rmeta", "pid": "p", "fmt": "no-such-format"}]
# a cid that is no digest and exactly fills the shard directories (depth 2 x width 2: "abcd" is stored as the FILE refs/cids/ab/cd)
# followed by a longer one that needs a DIRECTORY of that name: the second call cannot succeed, and must still return
NESTED = [({"op": "tag", "pid": "n", "cid": {"raw": "abcd"}}, {"op": "tag", "pid": "m", "cid": {"raw": "abcd0123456789"}}),
          ({"op": "tag", "pid": "n", "cid": {"raw": "abcd0123456789"}}, {"op": "tag", "pid": "m", "cid": {"raw": "abcd"}}),
          ({"op": "tag", "pid": "n", "cid": {"raw": "ab"}}, {"op": "store", "pid": "m", "c": 0}),
          ({"op": "tag", "pid": "n", "cid": {"raw": "abcd"}}, {"op": "delete", "pid": "n"})]
REGULAR = [{"op": "store", "pid": "p", "c": 0}, {"op": "tag", "pid": "q", "cid": {"of": 0}}, {"op": "delete", "pid": "p"}]
# the same identifiers through TWO FileHashStore instances opened on one directory in one process (e.g. two factory calls)
INST2 = [({"op": "store", "pid": "p", "c": 0}, {"op": "delete", "pid": "p"}), ({"op": "store", "pid": "p", "c": 0}, {"op": "store", "pid": "q", "c": 0}),
         ({"op": "tag", "pid": "p", "cid": {"of": 0}}, {"op": "tag", "pid": "q", "cid": {"of": 0}}),
         ({"op": "delete", "pid": "p"}, {"op": "delete", "pid": "q"}), ({"op": "delete", "pid": "p"}, {"op": "tag", "pid": "p", "cid": {"of": 1}}),
         ({"op": "smeta", "pid": "p", "fmt": "f", "d": 0}, {"op": "dmeta", "pid": "p", "fmt": "f"}),
         ({"op": "smeta", "pid": "p", "fmt": "f", "d": 0}, {"op": "smeta", "pid": "p", "fmt": "f", "d": 1}),
         ({"op": "store", "pid": "p", "c": 0}, {"op": "dii", "c": 0, "cks": "wrong"})]


def _extra_cases(tier):
    docs = [{"hex": "6f6c64"}, {"hex": "6e6577"}]
    for sname in ("p=X", "X-unreferenced", "p=X,q=X") if tier == "quick" else sorted(c07.STARTS):
        for odd in ODD:
            yield dict(BASE, docs=docs, family="odd", start_name=sname, start=c07.STARTS[sname], calls=[odd])
            for reg in (REGULAR[:1] if tier == "quick" else REGULAR):
                yield dict(BASE, docs=docs, family="odd", start_name=sname, start=c07.STARTS[sname], calls=[odd, reg])
    for sname in ("empty", "p=X"):
        for a, b in NESTED:
            yield dict(BASE, docs=docs, family="odd", start_name=sname, start=c07.STARTS[sname], calls=[a, b], all_followups=True)
    for sname in ("empty", "p=X", "p=X,q=X"):
        for a, b in INST2:
            yield dict(BASE, docs=docs, family="inst2", start_name=sname, start=c07.STARTS[sname], calls=[a, b])


@st.composite
def _case(draw, tier):
    sname = draw(st.sampled_from(sorted(c07.STARTS)))
    n = draw(st.sampled_from([3, 4, 4]))
    calls = [draw(st.sampled_from(MENU4)) for _ in range(n)]
    order = draw(st.permutations(list(range(n))))
    pre = draw(st.lists(st.tuples(st.integers(0, 40), st.integers(0, 2)), min_size=1, max_size=5))
    return dict(BASE, family="gen", start_name=sname, start=c07.STARTS[sname], calls=calls, order=list(order),
                preemptions=[list(p) for p in pre])


def strategy(tier):
    return _case(tier)


# ---- oracle -------------------------------------------------------------------------------------------

def followups(calls):
    pids = sorted({c["pid"] for c in calls if c.get("pid")})
    out = []
    for p in pids:
        out += [{"op": "smeta", "pid": p, "fmt": "f", "d": 0}, {"op": "smeta", "pid": p, "fmt": "fmt:1", "d": 0},
                {"op": "dmeta", "pid": p, "fmt": None}, {"op": "delete", "pid": p}, {"op": "store", "pid": p, "c": 0},
                {"op": "tag", "pid": p, "cid": {"of": 1}}, {"op": "delete", "pid": p}]
    out += [{"op": "dii", "c": 0, "cks": "wrong"}, {"op": "dii", "c": 1, "cks": "wrong"}]
    return out


def judge(ctx, world, desc, calls, ex, sig, follow=True, extra_follow=()):
    """ex must have been run with keep_dir=True."""
    try:
        if ex.deadlock and getattr(ex, "livelock", False):
            spinning = [(i, p) for i, st_, w, p in ex.deadlock if st_ == "spinning"]
            ctx.violation("call-never-returns", f"{desc}: after more than {sched.MAX_STEPS} scheduling points the calls of threads {spinning} "
                          f"(thread, pending operation) still run - they repeat the same operations for ever; outcomes of the "
                          f"others: {ex.outcomes}", dict(sig, failure="livelock"))
            return
        if ex.deadlock:
            blocked = [(i, w) for i, st_, w, p in ex.deadlock if st_ == "blocked"]
            ctx.violation("deadlock", f"{desc}: threads {blocked} are blocked and no thread is runnable; outcomes of the "
                          f"others: {ex.outcomes}", dict(sig, failure="deadlock"))
            return
        if ex.locks:
            ctx.violation("identifier-left-locked", f"{desc}: after all calls returned (outcomes {ex.outcomes}) the store "
                          f"still lists {ex.locks} as locked", dict(sig, failure="left-locked"))
        fl = [(f, ex.store) for f in (list(extra_follow) + followups(calls) if follow else [])]
        for st in (getattr(ex, "stores", None) or [])[1:]:
            fl += [(f, st) for f in (followups(calls) if follow else [])]
        for f, st in fl:
            fx = conc.run_program(world, [f], [0], [], on=(ex.dir, st), keep_dir=True)
            if fx.deadlock:
                ctx.violation("follow-up-blocked", f"{desc}: outcomes {ex.outcomes}; the follow-up call {f} on the same "
                              f"store instance blocks forever: {fx.deadlock}", dict(sig, failure="follow-up-blocked"))
                return
            if fx.outcomes[0] == ("err", conc.IN_PROGRESS):
                ctx.violation("follow-up-rejected-in-progress", f"{desc}: outcomes {ex.outcomes}; the follow-up {f} was "
                              f"rejected as already in progress although no call is running", dict(sig, failure="left-locked"))
    finally:
        if ex.dir:
            shutil.rmtree(ex.dir, ignore_errors=True)


def run_case(case, ctx):
    fsi.install()
    fam = case["family"]
    ctx.evaluations -= 1
    if fam == "fault":
        return _fault_case(case, ctx)
    world = conc.World(case, ctx)
    if fam == "odd" and len(case["calls"]) == 1:
        calls = case["calls"]
        ex = conc.run_program(world, calls, [0], [], keep_dir=True)
        ctx.count()
        desc = f"[rejected call alone] start={case['start_name']} call={calls[0]} outcome={ex.outcomes[0]}"
        judge(ctx, world, desc, calls, ex, {"family": "odd", "ops": [conc.op_pattern(calls[0], world)]}, extra_follow=[calls[0]])
        ctx.classify("rejected-call-alone")
        if ex.outcomes[0][0] == "err":
            ctx.nontrivial(["odd", case["start_name"], str(calls[0]), ex.outcomes[0]])
        return
    if fam in ("pairs07", "pairs12", "odd", "inst2"):
        calls = case["calls"]
        n = 0
        inst = [0, 1] if fam == "inst2" else None
        for first in (0, 1):
            order = [first, 1 - first]
            i = 0
            while True:
                pre = [(i, 0)] if i else []
                ex = conc.run_program(world, calls, order, pre, keep_dir=True, instances=inst)
                if i and ex.used_preemptions == 0:
                    shutil.rmtree(ex.dir, ignore_errors=True)
                    break
                ctx.count()
                n += 1
                desc = f"[{fam}] start={case['start_name']} program={_prog(world, calls)} order={order} preemptions={pre}"
                # follow-up calls (the robust but costly part of the oracle) run on every 6th schedule (every 3rd when a thread waited) and
                # whenever something unusual happened; the lock lists are inspected after every execution
                follow = case.get("all_followups") or i % 6 == 0 or bool(ex.locks) or (any(ex.waited) and i % 3 == 0) \
                    or (fam == "inst2" and i % 2 == 0)
                judge(ctx, world, desc, calls, ex, {"family": fam, "ops": sorted(conc.op_pattern(c, world) for c in calls)},
                      follow=follow)
                if follow:
                    ctx.classify("executions-with-follow-up-calls")
                if any(ex.waited):
                    ctx.classify("some-thread-waited")
                    ctx.nontrivial([fam, case["start_name"], _prog(world, calls), order, pre])
                elif fam in ("odd", "inst2") and pre:
                    ctx.nontrivial([fam, case["start_name"], [str(c) for c in calls], order, pre, ex.outcomes])
                i += 1
        ctx.classify(f"{fam}-programs")
        ctx.classify(f"{fam}-schedules", n)
        return
    if fam == "wake-chain":
        start, h, w1, w2, pby = WAKE_CHAIN[case["chain"]]
        calls = [h, w1, w2, pby]
        ub = sched.UNTIL_BLOCKED
        for variant, pre in (("passer-by", [(case["hold"], 0), (ub, 0), (0, 0), (ub, 0), (0, 0), (ub, 0), (0, 0), (ub, 0)]),
                             ("no-passer-by", [(case["hold"], 0), (ub, 0), (0, 0), (ub, 0)])):
            ex = conc.run_program(world, calls, [0, 1, 2, 3], pre, keep_dir=True)
            ctx.count()
            desc = (f"[wake chain {case['chain']}/{variant}] program={_prog(world, calls)}: thread0 is parked after {case['hold']} steps, thread1 and "
                    f"thread2 run until they block, thread3 runs to completion, thread1 gets to re-check, then thread0 finishes")
            judge(ctx, world, desc, calls, ex, {"family": "wake-chain", "chain": case["chain"]})
            ctx.classify("wake-chain-" + case["chain"])
            if sum(ex.waited) >= 2:
                ctx.classify("two-threads-waited")
                ctx.nontrivial(["wake-chain", case["chain"], case["hold"], variant])
                ctx.sample({"family": "wake chain", "chain": case["chain"], "program": _prog(world, calls), "hold_steps": case["hold"],
                            "waited": ex.waited})
        return
    if fam == "hw":
        start, ha, hb, wa, wb = HW[case["hw"]]
        a, b = case["hold"]
        if case["waiters_first"] == "B":
            calls = [ha, hb, wb, wa]
        else:
            calls = [ha, hb, wa, wb]
        order = [0, 1, 2, 3]
        pre = [(a, 0), (b, 1), (sched.UNTIL_BLOCKED, 0), (0, 1), (sched.UNTIL_BLOCKED, 0)]
        ex = conc.run_program(world, calls, order, pre, keep_dir=True)
        ctx.count()
        desc = (f"[two holders + two waiters, {case['hw']}] program={_prog(world, calls)}: thread0 runs {a} steps, thread1 "
                f"{b} steps, then thread2 and thread3 run until they block, then thread0 and thread1 finish")
        judge(ctx, world, desc, calls, ex, {"family": "hw", "lock": case["hw"]})
        ctx.classify("hw-" + case["hw"])
        if sum(ex.waited) >= 2:
            ctx.classify("two-threads-waited")
            ctx.nontrivial(["hw", case["hw"], a, b, case["waiters_first"]])
            ctx.sample({"family": "two holders + two waiters", "lock": case["hw"], "program": _prog(world, calls),
                        "hold_steps": [a, b], "waited": ex.waited})
        return
    calls = case["calls"]
    ex = conc.run_program(world, calls, case["order"], [tuple(p) for p in case["preemptions"]], keep_dir=True)
    ctx.count()
    desc = f"[generated] start={case['start_name']} program={_prog(world, calls)} order={case['order']} preemptions={case['preemptions']}"
    judge(ctx, world, desc, calls, ex, {"family": "gen", "ops": sorted(conc.op_pattern(c, world) for c in calls)})
    ctx.classify(f"generated-{len(calls)}-threads")
    if any(ex.waited):
        ctx.classify("some-thread-waited")
        ctx.nontrivial(["gen", case["start_name"], _prog(world, calls), case["order"], case["preemptions"]])
        ctx.sample({"family": "generated", "program": _prog(world, calls), "order": case["order"],
                    "preemptions": case["preemptions"], "waited": ex.waited})


def _prog(world, calls):
    return [conc.op_pattern(c, world) + ":" + str(c.get("pid")) for c in calls]


def _fault_case(case, ctx):
    sc = scen.Scenario(case, ctx)
    world = conc.World(dict(case, start=[]), ctx)     # only for exec_call / follow-ups material
    world.cfg, world.contents, world.docs, world.cpaths, world.dpaths = sc.cfg, sc.contents, sc.docs, sc.cpaths, sc.dpaths
    tgt = case["target"]
    factory = lambda d: sched.make_owned_store(d, sc.cfg)  # noqa
    n = 0

    def scheduled(store, d, inj):
        """The faulted call runs as the only thread of an owned schedule, so that blocking is detected."""
        s = sched.Sched(d)
        s.ctx.on_op = inj
        if inj.sticky == "late":
            s.ctx.after_path_op = inj.after
        s.add(lambda: sc.call_target(store))
        try:
            return s.run(sched.preemption_chooser([0], []))[0]
        except sched.Deadlock as dl:
            return ("err", "BLOCKED-FOREVER", str(dl.info)[:200], None)

    import itertools
    runs = itertools.chain(fault.faulted_runs(sc, store_factory=factory, runner=scheduled),
                           fault.faulted_runs(sc, modes=("full",), errnos=("ENOSPC",), store_factory=factory, runner=scheduled),
                           fault.faulted_runs(sc, modes=("late",), errnos=("EIO",), store_factory=factory, runner=scheduled))
    for inj, store, d, out in runs:
        ctx.count()
        n += 1
        desc = f"[fault] {case['kind']} with {inj.describe()} -> {'ok' if is_ok(out) else out[1]}"
        sig = {"family": "fault", "call": case["kind"], "mode": "disk-full" if inj.sticky == "full" else "late" if inj.sticky == "late" else "sticky" if inj.sticky else "one-off",
               "site": inj.fired.kind}
        if not is_ok(out) and out[1] == "BLOCKED-FOREVER":
            ctx.violation("faulted-call-never-returns", f"{desc}: the call blocks forever: {out[2]}", dict(sig, failure="deadlock"))
            continue
        locks = sched.locks_left(store)
        if locks:
            ctx.violation("identifier-left-locked", f"{desc}: the store still lists {locks} as locked", dict(sig, failure="left-locked"))
        for f in followups([tgt]):
            fx = conc.run_program(world, [f], [0], [], on=(d, store), keep_dir=True)
            if fx.deadlock:
                ctx.violation("follow-up-blocked", f"{desc}: the follow-up call {f} on the same store instance blocks "
                              f"forever: {fx.deadlock}", dict(sig, failure="follow-up-blocked"))
                break
            if fx.outcomes[0] == ("err", conc.IN_PROGRESS):
                ctx.violation("follow-up-rejected-in-progress", f"{desc}: the follow-up {f} was rejected as already in "
                              f"progress", dict(sig, failure="left-locked"))
        if inj.k >= 1:
            ctx.nontrivial(["fault", case["kind"], inj.fired.kind, inj.sticky, inj.k])
    ctx.classify("fault-scenarios")
    ctx.classify("fault-executions", n)
    ctx.sample({"family": "fault", "scenario": sc.summary(), "faulted_executions": n})
