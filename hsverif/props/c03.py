"""C03 - a pid names at most one object; the binding is immutable until deleted."""
from hypothesis import strategies as st

from .. import common, gen, ops, seq
from ..common import is_ok

ID = "C03"
LEVEL = "exploration"
RULE = ("Hypothesis draws histories (<=24 calls) of store_object / tag_object / delete_object / "
        "delete_if_invalid_object over 3 pids, 3 contents and cids {stored, deleted, never stored}, "
        "with a generator bias that makes >=40% of store/tag calls target a pid that is already "
        "bound. Binding state is tracked observationally (a pid is bound after a store/tag that "
        "returned normally, until a delete_object attempt). Oracle for a store/tag on a bound pid: it "
        "raises one of the two documented already-exists classes (or, for store_object with wrong "
        "validation data, the mismatch error), and across the call every pid reference, every cid "
        "list, every pre-existing object and every retrieve_object result are unchanged; after "
        "delete_object(pid) returned, the same call must succeed. Non-trivial = history with >=1 "
        "rejected re-binding; distinct key = per rejected call (kind, same/different cid, new cid has "
        "a list or not, pid shares its object or not) plus whether a re-bind after delete succeeded."
        ' One case in four replaces a pid by the PATH OF AN EXISTING FILE that is edited / removed / re-created between the calls.')
ASSUMPTIONS = ["single thread, no injected faults (C13 covers faulted re-tagging)"]
PIDS = ["p1", "p2", "p3"]
ALREADY = {"HashStoreRefsAlreadyExists", "PidRefsAlreadyExistsError"}
MISMATCH = {"NonMatchingChecksum", "NonMatchingObjSize"}


def examples(tier):
    return 1600 if tier == "quick" else 60000


@st.composite
def _case(draw, tier):
    cfg = draw(gen.store_cfgs())
    cs = [draw(gen.contents(max_small=12, big=False)) for _ in range(3)]
    algo = cfg["algo"]
    # one case in four: a pid that is also the PATH OF AN EXISTING FILE, which is edited / removed / re-created between
    # the calls (identifiers are opaque strings - what they happen to name on the host must not matter)
    filepid = draw(st.integers(0, 3)) == 0
    pids = ["p1", "p2", seq.PIDFILE[0]] if filepid else PIDS
    parts = [(6, ops.store_op(pids, 3, allow_none=True, validation=True)),
             (5, ops.tag_op(pids, 3, algo, never=True)),
             (3, ops.delete_op(pids)),
             (1, ops.dii_op(3)),
             (1, ops.decoy_op(pids)),
             (1, ops.REOPEN)]
    if filepid:
        parts.append((3, st.fixed_dictionaries({"op": st.just("pidfile"), "i": st.just(0),
                                                "what": st.sampled_from(["edit", "remove", "create"])})))
    op = ops.weighted(*parts)
    return {"cfg": cfg, "contents": cs, "pids": pids, "ops": draw(ops.history(ops.on_instances(op), 2, 24))}


def strategy(tier):
    return _case(tier)


# ---- "the pid can be bound again only after delete_object(pid) has COMPLETED" ---------------------------------------
# delete_object(p) is parked before each of its boundaries in turn (it has not returned); a second thread then calls
# store_object(p, ..) / tag_object(p, ..) and runs until it returns or blocks; a third thread then stores a NEW metadata
# document for p and completes; only then the delete continues.  If the second call RETURNED NORMALLY, the delete had - as far
# as any caller can tell - completed before it: nothing the delete still does may touch what was stored for the new binding.
# (Being rejected - the pinned tree answers "already in progress" - or having to wait is fine and says nothing.)
INFLIGHT_BASE = {"cfg": {"algo": "SHA-256", "depth": 2, "width": 2}, "contents": [{"hex": "5858585858"}, {"hex": "5959"}],
                 "docs": [{"hex": "6d30"}, {"hex": "6d31"}, {"hex": "6e6577206d65746164617461"}]}
INFLIGHT_STARTS = {
    "sole-with-metadata": [{"op": "store", "pid": "p", "c": 0}, {"op": "smeta", "pid": "p", "fmt": None, "d": 0},
                           {"op": "smeta", "pid": "p", "fmt": "f2", "d": 1}],
    "shared-with-metadata": [{"op": "store", "pid": "p", "c": 0}, {"op": "store", "pid": "q", "c": 0},
                             {"op": "smeta", "pid": "p", "fmt": None, "d": 0}],
    "sole": [{"op": "store", "pid": "p", "c": 0}],
}
INFLIGHT_SECOND = [{"op": "store", "pid": "p", "c": 1}, {"op": "store", "pid": "p", "c": 0}, {"op": "tag", "pid": "p", "cid": {"of": 1}}]
INFLIGHT_THIRD = {"op": "smeta", "pid": "p", "fmt": "f-new", "d": 2}


def enumerate_cases(tier):
    for sname in INFLIGHT_STARTS:
        for n, second in enumerate(INFLIGHT_SECOND):
            yield dict(INFLIGHT_BASE, family="inflight-delete", start_name=sname, start=INFLIGHT_STARTS[sname], second=n, ops=[])


def case_cost(case):
    return 8


def _inflight_case(case, ctx):
    from .. import conc, fsi, sched
    fsi.install()
    world = conc.World(case, ctx)
    calls = [{"op": "delete", "pid": "p"}, INFLIGHT_SECOND[case["second"]], INFLIGHT_THIRD]
    cfg = world.cfg
    key = (cfg.H("p"), cfg.H("p" + INFLIGHT_THIRD["fmt"]))
    import hashlib
    want = hashlib.sha256(world.docs[INFLIGHT_THIRD["d"]]).hexdigest()
    ub = sched.UNTIL_BLOCKED
    ctx.evaluations -= 1
    k = 1
    while k < 120:
        pre = [(k, 0), (ub, 0), (0, 0), (ub, 0), (0, 0)]
        ex = conc.run_program(world, calls, [0, 1, 2], pre)
        if ex.used_preemptions == 0:
            break                       # the delete finished before its k-th boundary
        ctx.count()
        second_ok = ex.outcomes[1][0] == "ok" and not ex.waited[1]
        if second_ok and ex.outcomes[2][0] == "ok" and not ex.deadlock and ex.alpha["metadata"].get(key) != want:
            ctx.violation("rebinding-before-delete-completed", f"start={case['start_name']}: delete_object(p) parked before its boundary "
                          f"#{k}; {conc.op_pattern(calls[1], world)}:p returned normally (so the delete had taken effect), a metadata "
                          f"document stored for p after that is gone once the delete has finished: outcomes {ex.outcomes}, documents "
                          f"{sorted((a[:8], b[:8]) for a, b in ex.alpha['metadata'])}", {"family": "inflight-delete", "second": calls[1]["op"]})
        ctx.classify("inflight-delete second call: " + ("blocked" if ex.waited[1] else ex.outcomes[1][0] + ":" + str(ex.outcomes[1][1:2])))
        ctx.nontrivial(["inflight-delete", case["start_name"], case["second"], k, ex.outcomes[1][:2]])
        k += 1
    ctx.sample({"family": "in-flight delete excludes re-binding", "start": case["start_name"], "second": calls[1], "park_points": k - 1})


def _retrieves(run, pids):
    out = {}
    for p in pids:
        o = common.retrieve_bytes(run.store, run.rp(p))
        out[p] = ("ok", o[1]) if is_ok(o) else ("err", o[1])
    return out


def run_case(case, ctx):
    if case.get("family") == "inflight-delete":
        return _inflight_case(case, ctx)
    run = seq.Run(case, ctx)
    PIDS = case.get("pids") or globals()["PIDS"]
    if seq.PIDFILE[0] in PIDS:
        ctx.classify("pid-names-an-existing-file")
    bound = {}      # pid -> cid, observational
    deleted_once = set()
    keys, rebound = [], False
    for op in case["ops"]:
        k = op["op"]
        pid = op.get("pid")
        targets_bound = k in ("store", "tag") and pid in bound
        before_r = _retrieves(run, PIDS) if targets_bound else None
        r = run.step(op)
        d = run.describe(r)
        if targets_bound:
            newcid = run.cid_of(op["cid"]) if k == "tag" else run.cfg.digest(run.contents[op["c"]])
            allowed = set(ALREADY)
            if k == "store" and (op.get("cks") in ("wrong", "short") or op.get("size") == "wrong"):
                allowed |= MISMATCH
            if is_ok(r.out):
                ctx.violation("rebinding-accepted", f"{d}: pid was already bound to {bound[pid][:12]}.. "
                              f"and the call returned normally", {"op": k})
            elif r.out[1] not in allowed:
                ctx.violation("rebinding-wrong-error", f"{d}: expected one of {sorted(allowed)}", {"op": k, "err": r.out[1]})
            a, b = r.before, r.alpha
            if a["pidrefs"] != b["pidrefs"]:
                ctx.violation("rejected-call-changed-pidrefs", f"{d}: pid references changed: {seq._dd(a['pidrefs'], b['pidrefs'])}", {"op": k})
            if a["cidrefs"] != b["cidrefs"]:
                ctx.violation("rejected-call-changed-cidrefs", f"{d}: cid lists changed: {seq._dd(a['cidrefs'], b['cidrefs'])}", {"op": k})
            for c, v in a["objects"].items():
                if b["objects"].get(c) != v:
                    ctx.violation("rejected-call-changed-object", f"{d}: object {c[:12]} changed or vanished", {"op": k})
            after_r = _retrieves(run, PIDS)
            # bytes served before must still be served; a pid whose object was absent may become
            # retrievable because the rejected store legitimately added that (unreferenced) object
            changed = {p: (before_r[p][0], after_r[p][0]) for p in PIDS
                       if before_r[p] != after_r[p] and before_r[p][0] == "ok"}
            if changed:
                ctx.violation("rejected-call-changed-retrieve", f"{d}: retrieve_object results changed: "
                              f"{changed}", {"op": k})
            same = newcid == bound[pid]
            keys.append([k, "same" if same else "diff", newcid in a["cidrefs"],
                         len(a["cidrefs"].get(bound[pid], [])) > 1])
            ctx.classify("rejected-rebinding")
        elif k in ("store", "tag") and pid is not None:
            # unbound pid: binding must succeed unless validation data is wrong
            invalid = k == "store" and (op.get("cks") in ("wrong", "short") or op.get("size") == "wrong")
            if is_ok(r.out):
                if invalid:
                    pass  # C06's business
                else:
                    bound[pid] = run.cid_of(op["cid"]) if k == "tag" else r.out[1].cid
                    if pid in deleted_once:
                        rebound = True
                        ctx.classify("rebind-after-delete")
            elif not invalid and pid in deleted_once and r.out[1] in ALREADY:
                ctx.violation("cannot-rebind-after-delete", f"{d}: pid was deleted by a completed "
                              f"delete_object and is still reported as bound", {"op": k})
        elif k == "delete":
            if is_ok(r.out):
                if pid in bound:
                    deleted_once.add(pid)
                bound.pop(pid, None)
            else:
                if pid in bound:
                    bound.pop(pid)  # state unknown after a failed delete: stop tracking
                    deleted_once.discard(pid)
    if keys:
        ctx.nontrivial([keys, rebound])
        ctx.sample({"ops": [c05_brief(o) for o in case["ops"][:14]], "rejected": keys[:6], "rebound": rebound})


def c05_brief(op):
    from .c05 import _brief
    return _brief(op)
