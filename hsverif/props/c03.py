"""C03 - a pid names at most one object; the binding is immutable until deleted."""
from hypothesis import strategies as st

from .. import common, gen, ops, seq
from ..common import is_ok

ID = "C03"
LEVEL = "exploration"
RULE = ("Hypothesis draws histories (<=24 calls) of store_object / tag_object / delete_object / "
        "delete_if_invalid_object over 3 pids, 3 contents and cids {stored, deleted, never stored}, "
        "with a generator bias that makes >=40% of store/tag calls target a pid that is already "
        "bound. Binding state is tracked observationally (a pid is bound after a store/tag that "
        "returned normally, until a delete_object attempt). Oracle for a store/tag on a bound pid: it "
        "raises one of the two documented already-exists classes (or, for store_object with wrong "
        "validation data, the mismatch error), and across the call every pid reference, every cid "
        "list, every pre-existing object and every retrieve_object result are unchanged; after "
        "delete_object(pid) returned, the same call must succeed. Non-trivial = history with >=1 "
        "rejected re-binding; distinct key = per rejected call (kind, same/different cid, new cid has "
        "a list or not, pid shares its object or not) plus whether a re-bind after delete succeeded."
        ' One case in four replaces a pid by the PATH OF AN EXISTING FILE that is edited / removed / re-created between the calls.')
ASSUMPTIONS = ["single thread, no injected faults (C13 covers faulted re-tagging)"]
PIDS = ["p1", "p2", "p3"]
ALREADY = {"HashStoreRefsAlreadyExists", "PidRefsAlreadyExistsError"}
MISMATCH = {"NonMatchingChecksum", "NonMatchingObjSize"}


def examples(tier):
    return 1600 if tier == "quick" else 60000


@st.composite
def _case(draw, tier):
    cfg = draw(gen.store_cfgs())
    cs = [draw(gen.contents(max_small=12, big=False)) for _ in range(3)]
    algo = cfg["algo"]
    # one case in four: a pid that is also the PATH OF AN EXISTING FILE, which is edited / removed / re-created between
    # the calls (identifiers are opaque strings - what they happen to name on the host must not matter)
    filepid = draw(st.integers(0, 3)) == 0
    pids = ["p1", "p2", seq.PIDFILE[0]] if filepid else PIDS
    parts = [(6, ops.store_op(pids, 3, allow_none=True, validation=True)),
             (5, ops.tag_op(pids, 3, algo, never=True)),
             (3, ops.delete_op(pids)),
             (1, ops.dii_op(3)),
             (1, ops.decoy_op(pids)),
             (1, ops.REOPEN)]
    if filepid:
        parts.append((3, st.fixed_dictionaries({"op": st.just("pidfile"), "i": st.just(0),
                                                "what": st.sampled_from(["edit", "remove", "create"])})))
    op = ops.weighted(*parts)
    return {"cfg": cfg, "contents": cs, "pids": pids, "ops": draw(ops.history(ops.on_instances(op), 2, 24))}


def strategy(tier):
    return _case(tier)


def _retrieves(run, pids):
    out = {}
    for p in pids:
        o = common.retrieve_bytes(run.store, run.rp(p))
        out[p] = ("ok", o[1]) if is_ok(o) else ("err", o[1])
    return out


def run_case(case, ctx):
    run = seq.Run(case, ctx)
    PIDS = case.get("pids") or globals()["PIDS"]
    if seq.PIDFILE[0] in PIDS:
        ctx.classify("pid-names-an-existing-file")
    bound = {}      # pid -> cid, observational
    deleted_once = set()
    keys, rebound = [], False
    for op in case["ops"]:
        k = op["op"]
        pid = op.get("pid")
        targets_bound = k in ("store", "tag") and pid in bound
        before_r = _retrieves(run, PIDS) if targets_bound else None
        r = run.step(op)
        d = run.describe(r)
        if targets_bound:
            newcid = run.cid_of(op["cid"]) if k == "tag" else run.cfg.digest(run.contents[op["c"]])
            allowed = set(ALREADY)
            if k == "store" and (op.get("cks") in ("wrong", "short") or op.get("size") == "wrong"):
                allowed |= MISMATCH
            if is_ok(r.out):
                ctx.violation("rebinding-accepted", f"{d}: pid was already bound to {bound[pid][:12]}.. "
                              f"and the call returned normally", {"op": k})
            elif r.out[1] not in allowed:
                ctx.violation("rebinding-wrong-error", f"{d}: expected one of {sorted(allowed)}", {"op": k, "err": r.out[1]})
            a, b = r.before, r.alpha
            if a["pidrefs"] != b["pidrefs"]:
                ctx.violation("rejected-call-changed-pidrefs", f"{d}: pid references changed: {seq._dd(a['pidrefs'], b['pidrefs'])}", {"op": k})
            if a["cidrefs"] != b["cidrefs"]:
                ctx.violation("rejected-call-changed-cidrefs", f"{d}: cid lists changed: {seq._dd(a['cidrefs'], b['cidrefs'])}", {"op": k})
            for c, v in a["objects"].items():
                if b["objects"].get(c) != v:
                    ctx.violation("rejected-call-changed-object", f"{d}: object {c[:12]} changed or vanished", {"op": k})
            after_r = _retrieves(run, PIDS)
            # bytes served before must still be served; a pid whose object was absent may become
            # retrievable because the rejected store legitimately added that (unreferenced) object
            changed = {p: (before_r[p][0], after_r[p][0]) for p in PIDS
                       if before_r[p] != after_r[p] and before_r[p][0] == "ok"}
            if changed:
                ctx.violation("rejected-call-changed-retrieve", f"{d}: retrieve_object results changed: "
                              f"{changed}", {"op": k})
            same = newcid == bound[pid]
            keys.append([k, "same" if same else "diff", newcid in a["cidrefs"],
                         len(a["cidrefs"].get(bound[pid], [])) > 1])
            ctx.classify("rejected-rebinding")
        elif k in ("store", "tag") and pid is not None:
            # unbound pid: binding must succeed unless validation data is wrong
            invalid = k == "store" and (op.get("cks") in ("wrong", "short") or op.get("size") == "wrong")
            if is_ok(r.out):
                if invalid:
                    pass  # C06's business
                else:
                    bound[pid] = run.cid_of(op["cid"]) if k == "tag" else r.out[1].cid
                    if pid in deleted_once:
                        rebound = True
                        ctx.classify("rebind-after-delete")
            elif not invalid and pid in deleted_once and r.out[1] in ALREADY:
                ctx.violation("cannot-rebind-after-delete", f"{d}: pid was deleted by a completed "
                              f"delete_object and is still reported as bound", {"op": k})
        elif k == "delete":
            if is_ok(r.out):
                if pid in bound:
                    deleted_once.add(pid)
                bound.pop(pid, None)
            else:
                if pid in bound:
                    bound.pop(pid)  # state unknown after a failed delete: stop tracking
                    deleted_once.discard(pid)
    if keys:
        ctx.nontrivial([keys, rebound])
        ctx.sample({"ops": [c05_brief(o) for o in case["ops"][:14]], "rejected": keys[:6], "rebound": rebound})


def c05_brief(op):
    from .c05 import _brief
    return _brief(op)
