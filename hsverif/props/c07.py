"""C07 - concurrent object operations are linearizable."""
import itertools

from hypothesis import strategies as st

from .. import common, conc, fsi, sched, seq
from ..common import is_ok

ID = "C07"
LEVEL = "exploration"
RULE = ("(a) enumerated: every unordered pair of calls from the menu {store_object(p,X), store_object(p,Y), "
        "store_object(q,X), store_object(None,X), tag_object(p,cidX), tag_object(q,cidX), delete_object(p), "
        "delete_object(q), delete_if_invalid_object(X, wrong), delete_if_invalid_object(X, right)} x 6 start "
        "states {empty, p=X, p=X and q=X, X unreferenced, r=X, p=Y}, each run as 2 threads under EVERY schedule with "
        "<=1 preemption (quick; <=2 for the six most contended pairs) / <=2 preemptions (thorough), preemption points = every file-system operation, "
        "lock acquisition and condition wait of the owned scheduler; (b) Hypothesis: 3-thread programs over the "
        "same menu with a generated schedule of <=4 preemptions; (c) holder / second / third triples (the holder is parked "
        "at each of 8 hold points, the second and third call each run until they block or return, then the holder "
        "continues) for every conflicting triple with holder in {store(p,X), tag(p,cidX), delete(p)} x 3 starts. Oracle: the (per-call outcome vector, abstract "
        "final state) must equal that of SOME sequential order of the same calls run on a copy of the start "
        "state (calls rejected with StoreObjectForPidAlreadyInProgress because another store_object of the "
        "program targets the same pid are dropped first); no deadlock. evaluations = controlled executions. "
        "Non-trivial = the calls conflict (share a pid or a content) and >=1 preemption landed inside a call; "
        "distinct key = (start, program, schedule class, outcome vector)."
        ' Further enumerated families: hand-over (H parked, W blocks, H completes, W parked inside its critical section, a late third call, W continues); two FileHashStore instances on one directory adding to / removing from one shared, never-empty reference list (different pids; conflict-directed enumeration of every schedule with <=2 (quick) / <=3 (thorough) preemptions landing before non-commuting operations); thorough: conflict-directed <=3 preemptions for every conflicting pair x start; executions that saw a wait with a timeout are re-run with the timed waits expiring.'
        ' Round 9 family references-without-object: start states in which one or two pids were tagged to the cid BEFORE any upload (reference files without data object); every conflicting pair of {delete p, tag q, store q, store p, tag p, delete q, store without pid} under every single preemption (quick) / conflict-directed <=3 (thorough). Family sequenced: one caller issues two calls in a row (store then delete, delete then store / tag again) while the call of another caller on the same shared list overlaps them; the sequential specification keeps the program order of each caller; conflict-directed <=2 / <=3 preemptions.')
EXHAUSTIVE_NOTE = ("part (a) enumerates all 55 pairs x 6 starts x all single-preemption schedules (quick) / all "
                   "schedules with <=2 preemptions for conflicting pairs (thorough)")
ASSUMPTIONS = ["interleaving granularity = file-system operations and lock operations of the store (each step "
               "sequentially consistent)", "threads share one FileHashStore instance constructed over scheduler-aware "
               "Lock/Condition shims; fcntl.flock is issued non-blocking and retried under the scheduler"]
SHRINK_BUDGET = 60.0

X, Y = 0, 1
MENU = [
    {"op": "store", "pid": "p", "c": X}, {"op": "store", "pid": "p", "c": Y}, {"op": "store", "pid": "q", "c": X},
    {"op": "store", "pid": None, "c": X}, {"op": "tag", "pid": "p", "cid": {"of": X}},
    {"op": "tag", "pid": "q", "cid": {"of": X}}, {"op": "delete", "pid": "p"}, {"op": "delete", "pid": "q"},
    {"op": "dii", "c": X, "cks": "wrong"}, {"op": "dii", "c": X, "cks": "right"},
]
STARTS = {
    "empty": [],
    "p=X": [{"op": "store", "pid": "p", "c": X}],
    "p=X,q=X": [{"op": "store", "pid": "p", "c": X}, {"op": "store", "pid": "q", "c": X}],
    "X-unreferenced": [{"op": "store", "pid": None, "c": X}],
    "r=X": [{"op": "store", "pid": "r", "c": X}],
    "p=Y": [{"op": "store", "pid": "p", "c": Y}],
}
NOOBJ_STARTS = {"p->X,no-object": [{"op": "tag", "pid": "p", "cid": {"of": X}}],
                "p->X,r->X,no-object": [{"op": "tag", "pid": "p", "cid": {"of": X}}, {"op": "tag", "pid": "r", "cid": {"of": X}}]}
NOOBJ_MENU = [{"op": "delete", "pid": "p"}, {"op": "tag", "pid": "q", "cid": {"of": X}}, {"op": "store", "pid": "q", "c": X},
              {"op": "store", "pid": "p", "c": X}, {"op": "tag", "pid": "p", "cid": {"of": X}}, {"op": "delete", "pid": "q"},
              {"op": "store", "pid": None, "c": X}]
SEQ_START = [{"op": "store", "pid": "p", "c": X}, {"op": "store", "pid": "r", "c": X}]
_st = lambda pid: {"op": "store", "pid": pid, "c": X}                      # noqa: E731
_tg = lambda pid: {"op": "tag", "pid": pid, "cid": {"of": X}}              # noqa: E731
_dl = lambda pid: {"op": "delete", "pid": pid}                             # noqa: E731
SEQUENCED = [(_dl("p"), [_st("q"), _dl("q")]), (_tg("q"), [_dl("p"), _tg("p")]), (_st("q"), [_dl("p"), _st("p")]),
             (_dl("p"), [_tg("q"), _dl("q")]), (_st("q"), [_st("s"), _dl("s")]), (_tg("q"), [_tg("s"), _dl("s")]),
             ({"op": "dii", "c": X, "cks": "wrong"}, [_dl("p"), _st("p")]), (_dl("p"), [_st("q"), _st("s")])]
VAL_CALLS = [{"op": "store", "pid": "p", "c": X, "cks": "right"}, {"op": "store", "pid": "q", "c": X, "size": "right"},
             {"op": "store", "pid": "p", "c": X, "cks": "right", "cks_algo": "md5", "size": "right"}, {"op": "store", "pid": "q", "c": X},
             {"op": "store", "pid": None, "c": X}, {"op": "store", "pid": "p", "c": X, "cks": "wrong"},
             {"op": "store", "pid": "p", "c": X, "size": "wrong"}]
BASE = {"cfg": {"algo": "SHA-256", "depth": 2, "width": 2}, "contents": [{"hex": "5858585858"}, {"hex": "5959"}], "docs": []}


def examples(tier):
    return 1600 if tier == "quick" else 20000


def conflicting(a, b):
    pa, pb = a.get("pid"), b.get("pid")
    ca = a.get("c", a.get("cid", {}).get("of"))
    cb = b.get("c", b.get("cid", {}).get("of"))
    return (pa is not None and pa == pb) or (ca is not None and ca == cb) or a["op"] == "delete" or b["op"] == "delete"


BIG_BASE = {"cfg": {"algo": "SHA-256", "depth": 2, "width": 2}, "docs": [{"pat": "6d", "n": 3 * 8192 + 5}],
            "contents": [{"pat": "41", "n": 3 * 8192 + 1}, {"pat": "42", "n": 2 * 8192 + 77}]}
BIG_CALLS = [{"op": "store", "pid": "p", "c": 0}, {"op": "store", "pid": "q", "c": 1}, {"op": "smeta", "pid": "q", "fmt": "f", "d": 0}]
TWO_INST_START = [{"op": "store", "pid": "p", "c": X}, {"op": "store", "pid": "r", "c": X}, {"op": "store", "pid": "t", "c": X}]
TWO_INST_CALLS = [{"op": "store", "pid": "q", "c": X}, {"op": "tag", "pid": "q", "cid": {"of": X}}, {"op": "store", "pid": "s", "c": X},
                  {"op": "tag", "pid": "s", "cid": {"of": X}}, {"op": "delete", "pid": "p"}, {"op": "delete", "pid": "r"}]
TWO_INST_PAIRS = [(0, 2), (0, 3), (1, 3), (0, 4), (1, 4), (4, 5)]


def same_ident(a, b):
    """The two calls name the same pid or the same content (they contend for the same lock entry)."""
    pa, pb = a.get("pid"), b.get("pid")
    ca = a.get("c", a.get("cid", {}).get("of"))
    cb = b.get("c", b.get("cid", {}).get("of"))
    return (pa is not None and pa == pb) or (ca is not None and ca == cb)


def handover_preemptions(a, k):
    ub = sched.UNTIL_BLOCKED
    return [(a, 0), (ub, 0), (ub, 0), (k, 0), (ub, 0)]


def case_cost(case):
    if case.get("mode") == "handover":
        return 15
    if case.get("mode") == "cd":
        return 60 if case.get("max_preempt", 2) >= 3 else 12

    return 40 if case.get("max_preempt", 1) >= 2 else 1


# 'holder, waiter, passer-by': H is parked inside its critical section, W (same identifier) runs until it
# blocks, P (another identifier, same condition variable) runs to completion and notifies; then W gets
# the chance to run BEFORE H continues - it must still be waiting.
HWP = {
    "object-pid": ([], {"op": "store", "pid": "p", "c": X}, {"op": "delete", "pid": "p"}, {"op": "store", "pid": "q", "c": Y}),
    "reference-pid": ([], {"op": "tag", "pid": "p", "cid": {"of": X}}, {"op": "tag", "pid": "p", "cid": {"of": Y}},
                      {"op": "tag", "pid": "q", "cid": {"of": Y}}),
    "cid": ([{"op": "store", "pid": None, "c": X}], {"op": "tag", "pid": "p", "cid": {"of": X}},
            {"op": "tag", "pid": "q", "cid": {"of": X}}, {"op": "tag", "pid": "r", "cid": {"of": Y}}),
    "cid-delete": ([{"op": "store", "pid": "p", "c": X}, {"op": "store", "pid": "q", "c": X}, {"op": "store", "pid": "r", "c": Y}],
                   {"op": "delete", "pid": "p"}, {"op": "delete", "pid": "q"}, {"op": "delete", "pid": "r"}),
}


def hwp_preemptions(a):
    ub = sched.UNTIL_BLOCKED
    return [(a, 0), (ub, 0), (0, 0), (ub, 0), (0, 0)]


def enumerate_cases(tier):
    holds = range(2, 40, 3) if tier == "quick" else range(1, 60)
    for fam, (start, h, w, p) in HWP.items():
        for a in holds:
            yield dict(BASE, start_name="hwp:" + fam, start=start, calls=[h, w, p], mode="gen", order=[0, 1, 2],
                       preemptions=[list(x) for x in hwp_preemptions(a)], family="holder-waiter-passer-by")
    # 'holder, second, third' triples: H is parked after k steps, the second call runs until it blocks or returns
    # (e.g. a duplicate that is rejected), the third likewise, only then H continues.  Catches protection that a
    # REJECTED or WAITING call takes away from the call in flight - invisible with two threads.
    holders = (0, 4, 6) if tier == "quick" else range(len(MENU))          # store(p,X), tag(p,cidX), delete(p)
    t_holds = (4, 9, 14, 19, 24, 30, 38, 46) if tier == "quick" else range(2, 56, 2)
    t_starts = ("empty", "p=X", "p=X,q=X") if tier == "quick" else tuple(STARTS)
    for sname in t_starts:
        for h in holders:
            for w in range(len(MENU)):
                for p3 in range(len(MENU)):
                    calls3 = [MENU[h], MENU[w], MENU[p3]]
                    if not (conflicting(calls3[0], calls3[1]) and conflicting(calls3[0], calls3[2])):
                        continue
                    yield dict(BASE, start_name=sname, start=STARTS[sname], calls=calls3, mode="triple", holds=list(t_holds),
                               family="holder-second-third")
    # 'hand-over': H holds (parked after a steps), W runs until it blocks behind H, H runs to completion and hands
    # over, W runs k steps (it is now INSIDE its critical section), a late third call runs until it blocks or
    # returns, then W continues.  Catches exclusion that is lost at the moment a lock changes hands (per-identifier
    # lock tables whose entry is dropped on release while a waiter already holds the old lock object).
    ho_a = (6, 14, 24) if tier == "quick" else range(2, 40, 4)
    ho_k = (2, 5, 9, 14, 20, 28) if tier == "quick" else range(1, 40, 2)
    for sname in (("empty", "p=X") if tier == "quick" else ("empty", "p=X", "p=X,q=X", "X-unreferenced")):
        for h in (0, 4, 6):
            for w in range(len(MENU)):
                for p3 in range(len(MENU)):
                    calls3 = [MENU[h], MENU[w], MENU[p3]]
                    if not (conflicting(calls3[0], calls3[1]) and conflicting(calls3[1], calls3[2])):
                        continue
                    if tier == "quick" and not (same_ident(calls3[0], calls3[1]) and same_ident(calls3[1], calls3[2])):
                        continue
                    yield dict(BASE, start_name=sname, start=STARTS[sname], calls=calls3, mode="handover", ho_a=list(ho_a),
                               ho_k=list(ho_k), family="hand-over")
    # 'two instances, one shared reference list': the two calls go through TWO FileHashStore objects opened on the same
    # directory (two workers that each called the factory; no in-memory lock is shared), name different pids and add to /
    # remove from the SAME cid's reference list, which stays non-empty throughout.  The only exclusion between them is the
    # file lock the store takes around every read-modify-write of the list ("this process needs to complete before any
    # others read/modify the content of refs file"); the pinned tree linearizes every explored schedule of these programs.
    for a, b in TWO_INST_PAIRS:
        yield dict(BASE, start_name="p=X,r=X,t=X", start=TWO_INST_START, calls=[TWO_INST_CALLS[a], TWO_INST_CALLS[b]], mode="cd",
                   max_preempt=2 if tier == "quick" else 3, instances=[0, 1], family="two-instances-shared-list")
    # 'different contents, one instance': two stores (and a store next to a store_metadata) of DIFFERENT multi-block contents through
    # one FileHashStore; every read of the callers' SOURCE files is a scheduling point before the OS call and again when it has
    # returned (the moment another thread can run between "buffer filled" and "buffer used"): a read buffer shared by the calls - a
    # class attribute, a mutable default argument, one buffer per instance - mixes the contents up
    for a, b in ((0, 1), (0, 2), (1, 1)):
        yield dict(BIG_BASE, start_name="empty", start=[], calls=[BIG_CALLS[a], BIG_CALLS[(b + 1) % 3 if a == b else b]], mode="enum",
                   max_preempt=1, source_reads=True, family="different-contents-one-instance")
    # 'validated stores': first-time stores of the SAME content under different pids where the callers pass (correct) validation
    # data - the branch of the data stage that runs only with a checksum / an expected size, next to another publisher
    for sname in ("empty", "X-unreferenced"):
        # (5, 6: stores whose validation data is WRONG - they must be refused without harming the other caller's store of the same bytes)
        for a, b in ((0, 1), (0, 3), (2, 1), (2, 2), (0, 4), (5, 3), (6, 3), (5, 1)):
            for first in (0, 1):
                yield dict(BASE, start_name=sname, start=STARTS[sname], calls=[VAL_CALLS[a], VAL_CALLS[b]], mode="cd",
                           max_preempt=2 if tier == "quick" else 3, firsts=[first], family="validated-stores")
    if tier == "thorough":
        # conflict-directed enumeration: every schedule with <=3 preemptions up to commutation of independent steps
        for sname in STARTS:
            for a, b in itertools.combinations_with_replacement(range(len(MENU)), 2):
                if conflicting(MENU[a], MENU[b]):
                    for first in (0, 1):
                        yield dict(BASE, start_name=sname, start=STARTS[sname], calls=[MENU[a], MENU[b]], mode="cd", max_preempt=3,
                                   firsts=[first], family="conflict-directed")
    # 'references without object': a pid was tagged to a cid BEFORE the upload (documented use) - both reference files exist, the
    # object does not; delete_object / tag_object / store_object then take their rarely travelled branches, next to each other
    for a, b in itertools.combinations_with_replacement(NOOBJ_MENU, 2):
        if conflicting(a, b):
            for sname, start in NOOBJ_STARTS.items():
                if tier == "quick":
                    yield dict(BASE, start_name=sname, start=start, calls=[a, b], mode="enum", max_preempt=1,
                               family="references-without-object")
                else:
                    for first in (0, 1):
                        yield dict(BASE, start_name=sname, start=start, calls=[a, b], mode="cd", max_preempt=3, firsts=[first],
                                   family="references-without-object")
    # 'cid in another letter case': tag_object is handed the cid of a stored object in UPPER case (a checksum copied from system
    # metadata).  On the pinned tree that is simply another identifier with a list of its own; whatever an implementation makes of
    # it, the call must stay atomic next to the calls that use the object's own spelling
    up = {"op": "tag", "pid": "u", "cid": {"of": X, "upper": True}}
    for other in ({"op": "delete", "pid": "p"}, {"op": "tag", "pid": "r", "cid": {"of": X}}, {"op": "store", "pid": "r", "c": X},
                  {"op": "dii", "c": X, "cks": "wrong"}, {"op": "tag", "pid": "v", "cid": {"of": X, "upper": True}}):
        for sname in ("p=X", "X-unreferenced"):
            yield dict(BASE, start_name=sname, start=STARTS[sname], calls=[up, other], mode="enum", max_preempt=1,
                       family="cid-in-another-letter-case")
    # 'sequenced': one caller issues TWO calls one after the other while another caller's call overlaps them; the sequential
    # orders that explain the execution keep the caller's program order.  The shared object stays referenced by a third pid
    # throughout and no pid is stored and deleted by different callers (the windows of the known findings are not in these programs)
    for a, bs in SEQUENCED:
        for first in (0, 1):
            yield dict(BASE, start_name="p=X,r=X", start=SEQ_START, calls=[a, {"op": "seq", "ops": bs}], mode="cd",
                       max_preempt=2 if tier == "quick" else 3, firsts=[first], family="sequenced")
    # quick tier: the six most contended pairs already get every schedule with <=2 preemptions
    DEEP = {("p=X", 2, 6), ("r=X", 4, 6), ("empty", 0, 1), ("p=X,q=X", 6, 7), ("p=X", 5, 6), ("p=X", 0, 6)}
    for sname in STARTS:
        for a, b in itertools.combinations_with_replacement(range(len(MENU)), 2):
            two = (tier == "thorough" and conflicting(MENU[a], MENU[b])) or (sname, a, b) in DEEP
            case = dict(BASE, start_name=sname, start=STARTS[sname], calls=[MENU[a], MENU[b]], mode="enum",
                        max_preempt=2 if two else 1)
            if two:   # split the quadratic enumeration into 16 independent slices
                for first in (0, 1):
                    for k in range(8):
                        yield dict(case, firsts=[first], i_mod=[8, k])
            else:
                yield case


@st.composite
def _case(draw, tier):
    sname = draw(st.sampled_from(sorted(STARTS)))
    n = draw(st.sampled_from([2, 3, 3, 3]))
    calls = [draw(st.sampled_from(MENU)) for _ in range(n)]
    order = draw(st.permutations(list(range(n))))
    pre = draw(st.lists(st.tuples(st.integers(0, 45), st.integers(0, 1)), min_size=1, max_size=4))
    return dict(BASE, start_name=sname, start=STARTS[sname], calls=calls, mode="gen", order=list(order),
                preemptions=[list(p) for p in pre])


def strategy(tier):
    return _case(tier)


def signature(world, calls, failure):
    pids = [c.get("pid") for c in calls if c.get("pid")]
    dels = {c["pid"] for c in calls if c["op"] == "delete"}
    stores = {c["pid"] for c in calls if c["op"] == "store" and c.get("pid")}
    return {"ops": sorted(conc.op_pattern(c, world) for c in calls), "same_pid": len(set(pids)) < len(pids),
            "store_and_delete_same_pid": bool(dels & stores), "failure": failure}


def judge(ctx, world, case, calls, order, pre, ex, mp_mode=False, prop="C07"):
    desc = (f"start={case['start_name']} program={[conc.op_pattern(c, world) + ':' + str(c.get('pid')) for c in calls]} "
            f"schedule: order={order} preemptions(after n steps of the running thread)={pre}")
    if ex.deadlock:
        ctx.violation("deadlock", f"{desc}: no thread runnable: {ex.deadlock}", signature(world, calls, "deadlock"))
        return "deadlock"
    why = conc.linearizable(world, calls, ex, mp_mode)
    if why:
        failure = conc.classify_failure(world, calls, ex, why)
        missing = [h[:8] for h, c in ex.alpha["pidrefs"].items() if c not in ex.alpha["objects"]]
        ctx.violation("not-linearizable", f"{desc}: outcomes {ex.outcomes} with final state (objects="
                      f"{sorted(k[:8] for k in ex.alpha['objects'])}, pidrefs={len(ex.alpha['pidrefs'])}, "
                      f"cid lists={ {k[:8]: v for k, v in ex.alpha['cidrefs'].items()} }, residue={ex.alpha['residue'][:3]}, "
                      f"pid refs naming a missing object={missing}) equal no sequential order; failure class: "
                      f"{failure}; sequential outcome vectors: {why['sequential_outcomes'][:4]}",
                      signature(world, calls, failure))
        return failure
    return None


def run_case(case, ctx):
    fsi.install()
    world = conc.World(case, ctx)
    calls = case["calls"]
    ctx.evaluations -= 1
    confl = any(conflicting(a, b) for a, b in itertools.combinations(calls, 2))
    if case["mode"] == "enum":
        n = 0
        for order, pre, ex in conc.single_preemption_schedules(world, calls, max_preempt=case.get("max_preempt", 1),
                                                                firsts=case.get("firsts", (0, 1)),
                                                                i_mod=tuple(case.get("i_mod", (1, 0))),
                                                                **({"source_reads": True} if case.get("source_reads") else {})):
            ctx.count()
            n += 1
            judge(ctx, world, case, calls, order, pre, ex)
            if pre and confl:
                ctx.nontrivial([case["start_name"], [conc.op_pattern(c, world) for c in calls],
                                [c.get("pid") for c in calls], order, pre, ex.outcomes])
            if any(ex.waited):
                ctx.classify("some-thread-waited")
        ctx.classify("enumerated-programs")
        ctx.classify("enumerated-schedules", n)
        if confl and n > 40:
            ctx.sample({"start": case["start_name"], "program": [conc.op_pattern(c, world) + ":" + str(c.get("pid")) for c in calls],
                        "schedules_explored": n})
    elif case["mode"] == "triple":
        for a in case["holds"]:
            pre = hwp_preemptions(a)
            ex = conc.run_program(world, calls, [0, 1, 2], pre)
            if ex.used_preemptions == 0:
                break                      # the holder finished before the hold point
            ctx.count()
            judge(ctx, world, case, calls, [0, 1, 2], [list(x) for x in pre], ex)
            ctx.nontrivial([case["start_name"], [conc.op_pattern(c, world) for c in calls], [c.get("pid") for c in calls], a, ex.outcomes])
            if ex.saw_timed:
                # the code under test waits WITH A TIMEOUT: the same schedule once more with every timed wait expiring at once
                # (the parked holder "stalled for longer than the timeout")
                ex = conc.run_program(world, calls, [0, 1, 2], pre, expire_timed=True)
                ctx.count()
                ctx.classify("executions with expiring timed waits")
                judge(ctx, world, case, calls, [0, 1, 2], [list(x) for x in pre] + ["timed waits expire"], ex)
        ctx.classify("holder-second-third-programs")
    elif case["mode"] == "cd":
        n = 0
        stats = {}
        for order, pre, ex, stats in conc.conflict_directed_schedules(world, calls, max_preempt=case.get("max_preempt", 2),
                                                                      firsts=tuple(case.get("firsts", (0, 1))),
                                                                      instances=case.get("instances")):
            ctx.count()
            n += 1
            judge(ctx, world, case, calls, order, pre, ex)
            if pre:
                ctx.nontrivial([case["start_name"], case.get("family"), [conc.op_pattern(c, world) for c in calls],
                                [c.get("pid") for c in calls], order, pre, ex.outcomes])
        ctx.classify(case.get("family", "conflict-directed") + "-programs")
        ctx.classify(case.get("family", "conflict-directed") + "-schedules", n)
        ctx.classify("conflict-directed: positions pruned as independent", stats.get("pruned", 0))
        if stats.get("mispredicted"):
            ctx.classify("conflict-directed: pending operation differed from the prediction", stats["mispredicted"])
        ctx.sample({"family": case.get("family"), "start": case["start_name"], "program": [conc.op_pattern(c, world) + ":" + str(c.get("pid")) for c in calls],
                    "max_preemptions": case.get("max_preempt", 2), "schedules_explored": n, "pruned_positions": stats.get("pruned", 0)}, force=n > 100)
    elif case["mode"] == "handover":
        for a in case["ho_a"]:
            waited_any = False
            for k in case["ho_k"]:
                pre = handover_preemptions(a, k)
                ex = conc.run_program(world, calls, [0, 1, 2], pre)
                if ex.used_preemptions == 0:
                    break
                ctx.count()
                judge(ctx, world, case, calls, [0, 1, 2], [list(x) for x in pre], ex)
                waited_any = waited_any or ex.waited[1]
                if ex.waited[1]:
                    ctx.nontrivial([case["start_name"], [conc.op_pattern(c, world) for c in calls], [c.get("pid") for c in calls], a, k, ex.outcomes])
                if ex.used_preemptions < 2:
                    break                  # the second call finished before k steps: larger k changes nothing
            if not waited_any:
                ctx.classify("hand-over: second call never had to wait at this hold point")
        ctx.classify("hand-over-programs")
    else:
        ex = conc.run_program(world, calls, case["order"], [tuple(p) for p in case["preemptions"]])
        ctx.count()
        judge(ctx, world, case, calls, case["order"], case["preemptions"], ex)
        ctx.classify(f"generated-{len(calls)}-threads")
        ctx.classify(f"preemptions-used={ex.used_preemptions}")
        if confl and ex.used_preemptions >= 1:
            ctx.nontrivial([case["start_name"], [conc.op_pattern(c, world) for c in calls], [c.get("pid") for c in calls],
                            case["order"], case["preemptions"], ex.outcomes])
            ctx.sample({"start": case["start_name"], "program": [conc.op_pattern(c, world) + ":" + str(c.get("pid")) for c in calls],
                        "order": case["order"], "preemptions": case["preemptions"], "outcomes": [o[:2] for o in ex.outcomes]})
