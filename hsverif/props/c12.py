"""C12 - concurrent metadata operations are atomic and linearizable."""
import hashlib
import itertools

from hypothesis import strategies as st

from .. import common, conc, fsi, sched, seq
from . import c07

ID = "C12"
LEVEL = "exploration"
RULE = ("(a) enumerated: every unordered pair of calls from {store_metadata(p,F,v1), store_metadata(p,F,v2), "
        "store_metadata(p,default,v1), retrieve_metadata(p,F), retrieve_metadata(p,default), delete_metadata(p,F), "
        "delete_metadata(p) [all], delete_object(p)} x 3 start states {p bound / no documents, p bound / F and default "
        "present, p unbound / documents present}, run as 2 threads under every schedule with <=1 preemption, and with "
        "<=2 preemptions for the pairs that contain a delete (quick) / all pairs (thorough); holder / second / third "
        "triples and holder / waiter / passer-by programs on the document lock (see C07); (b) Hypothesis: 3-thread "
        "programs with generated schedules of <=4 preemptions. Oracle: outcome vector + final abstract state equal "
        "those of some sequential order, with the widening the property states for (lock-free) readers: a reader may return any complete "
        "version it returns in some sequential order, or a not-found error (ValueError / FileNotFoundError) when the "
        "document is absent in some sequential order. No deadlock. "
        "evaluations = controlled executions. Non-trivial = >=1 preemption inside a call and the two calls touch "
        "the same document or one of them deletes; distinct key = (start, program, schedule, outcomes)."
        ' Family different-documents: store || store / delete / read on DIFFERENT documents (colliding pid+format concatenations, same pid other format, other pid same format), through one instance and through two, every single-preemption schedule: such calls commute.'
        " Round 9 family sequenced: one caller issues two calls one after the other (store then delete, delete then store) while another caller's delete / store overlaps them; the sequential orders that explain an execution keep each caller's program order; conflict-directed <=2 (quick) / <=3 (thorough) preemptions, each under both orders of every directory listing (sorted / reverse-sorted - the file system's choice).")
EXHAUSTIVE_NOTE = "part (a) enumerates all 36 pairs x 3 starts x all schedules up to the stated preemption bound"
ASSUMPTIONS = c07.ASSUMPTIONS
SHRINK_BUDGET = 60.0

F = "fmt:1"
MENU = [
    {"op": "smeta", "pid": "p", "fmt": F, "d": 1}, {"op": "smeta", "pid": "p", "fmt": F, "d": 2},
    {"op": "smeta", "pid": "p", "fmt": None, "d": 1}, {"op": "rmeta", "pid": "p", "fmt": F},
    {"op": "rmeta", "pid": "p", "fmt": None}, {"op": "dmeta", "pid": "p", "fmt": F},
    {"op": "dmeta", "pid": "p", "fmt": None}, {"op": "delete", "pid": "p"},
]
STARTS = {
    "bound,no-docs": [{"op": "store", "pid": "p", "c": 0}],
    "bound,docs": [{"op": "store", "pid": "p", "c": 0}, {"op": "smeta", "pid": "p", "fmt": F, "d": 0},
                   {"op": "smeta", "pid": "p", "fmt": None, "d": 0}],
    "unbound,docs": [{"op": "smeta", "pid": "p", "fmt": F, "d": 0}, {"op": "smeta", "pid": "p", "fmt": None, "d": 0}],
}
BASE = {"cfg": {"algo": "SHA-256", "depth": 2, "width": 2}, "contents": [{"hex": "6f626a"}],
        "docs": [{"hex": "763020" * 3}, {"pat": "7631", "n": 9000}, {"hex": "7632"}]}


_AB_C = [{"op": "smeta", "pid": "ab", "fmt": "c", "d": 0}, {"op": "smeta", "pid": "a", "fmt": "bc", "d": 0}]
DIFFERENT_DOCS = {
    "colliding-concatenation/store-store": ([], {"op": "smeta", "pid": "ab", "fmt": "c", "d": 1}, {"op": "smeta", "pid": "a", "fmt": "bc", "d": 2}),
    "colliding-concatenation/overwrite-overwrite": (_AB_C, {"op": "smeta", "pid": "ab", "fmt": "c", "d": 1}, {"op": "smeta", "pid": "a", "fmt": "bc", "d": 2}),
    "colliding-concatenation/store-delete": (_AB_C, {"op": "smeta", "pid": "ab", "fmt": "c", "d": 1}, {"op": "dmeta", "pid": "a", "fmt": "bc"}),
    "colliding-concatenation/store-read": (_AB_C, {"op": "smeta", "pid": "ab", "fmt": "c", "d": 1}, {"op": "rmeta", "pid": "a", "fmt": "bc"}),
    "same-pid-other-format/store-store": ([], {"op": "smeta", "pid": "p", "fmt": F, "d": 1}, {"op": "smeta", "pid": "p", "fmt": "fmt:2", "d": 2}),
    "same-pid-default-and-other-format/store-store": ([], {"op": "smeta", "pid": "p", "fmt": None, "d": 1}, {"op": "smeta", "pid": "p", "fmt": F, "d": 2}),
    "other-pid-same-format/store-store": ([], {"op": "smeta", "pid": "p", "fmt": F, "d": 1}, {"op": "smeta", "pid": "q", "fmt": F, "d": 2}),
}


# one caller issues SEVERAL calls one after the other while another caller's call overlaps them: the sequential orders that explain
# the execution must keep each caller's program order (a delete issued after one's own store has returned cannot be ordered
# before it)
_SF1, _SF2 = {"op": "smeta", "pid": "p", "fmt": F, "d": 1}, {"op": "smeta", "pid": "p", "fmt": F, "d": 2}
_SD1 = {"op": "smeta", "pid": "p", "fmt": None, "d": 1}
_DF, _DALL, _DOBJ = {"op": "dmeta", "pid": "p", "fmt": F}, {"op": "dmeta", "pid": "p", "fmt": None}, {"op": "delete", "pid": "p"}
SEQUENCED = [(_DALL, [_SF1, _DALL]), (_DALL, [_SD1, _DALL]), (_DF, [_SF1, _DF]), (_DALL, [_SF1, _DF]), (_DF, [_SF1, _DALL]),
             (_DOBJ, [_SF1, _DALL]), (_DALL, [_SF1, _DOBJ]), (_SF1, [_DF, _SF2]), (_SF1, [_DALL, _SF2]), (_DF, [_DF, _SF1])]


def examples(tier):
    return 1600 if tier == "quick" else 20000


def has_delete(c):
    return c["op"] in ("dmeta", "delete")


def case_cost(case):
    if case.get("mode") == "cd":
        return 60
    return 40 if case.get("max_preempt", 1) >= 2 else 1


def enumerate_cases(tier):
    # holder / waiter / passer-by on the metadata-document lock (see C07)
    for a in (range(2, 30, 2) if tier == "quick" else range(1, 40)):
        yield dict(BASE, start_name="hwp:metadata-doc", start=[], mode="gen", order=[0, 1, 2],
                   calls=[{"op": "smeta", "pid": "p", "fmt": F, "d": 1}, {"op": "smeta", "pid": "p", "fmt": F, "d": 2},
                          {"op": "smeta", "pid": "q", "fmt": F, "d": 0}],
                   preemptions=[list(x) for x in c07.hwp_preemptions(a)], family="holder-waiter-passer-by")
    # holder / second / third triples (see C07): the holder is parked, the two others run until they block or return
    t_holds = (2, 5, 8, 11, 14, 18) if tier == "quick" else range(1, 26)
    for sname in (("bound,docs",) if tier == "quick" else tuple(STARTS)):
        for h in (0, 5, 6, 7):                       # store(F,v1), delete(F), delete(all), delete_object
            for w in range(len(MENU)):
                for p3 in range(len(MENU)):
                    yield dict(BASE, start_name=sname, start=STARTS[sname], calls=[MENU[h], MENU[w], MENU[p3]], mode="triple",
                               holds=list(t_holds), family="holder-second-third")
    # ... and with a DELETER parked between its existence check and its removal
    docs = [{"op": "smeta", "pid": "p", "fmt": F, "d": 0}, {"op": "smeta", "pid": "p", "fmt": None, "d": 0}]
    for waiter in ({"op": "dmeta", "pid": "p", "fmt": F}, {"op": "dmeta", "pid": "p", "fmt": None}):
        for passer in ({"op": "smeta", "pid": "q", "fmt": F, "d": 0}, {"op": "smeta", "pid": "p", "fmt": "fmt:other", "d": 1}):
            for a in (range(1, 14) if tier == "quick" else range(1, 30)):
                yield dict(BASE, start_name="hwp:metadata-doc-delete", start=docs, mode="gen", order=[0, 1, 2],
                           calls=[{"op": "dmeta", "pid": "p", "fmt": F}, waiter, passer],
                           preemptions=[list(x) for x in c07.hwp_preemptions(a)], family="holder-waiter-passer-by")
    # calls on DIFFERENT documents commute - whatever the identifiers look like (same pid / other format, other pid / same
    # format, pairs whose pid+format concatenations coincide) and whether the two callers share a FileHashStore object or
    # each opened its own on the same directory: any interference (a shared staging name, a shared buffer) shows here
    for name, (start, a, b) in DIFFERENT_DOCS.items():
        for inst in (None, [0, 1]):
            yield dict(BASE, start_name="different-documents:" + name, start=start, calls=[a, b], mode="enum", max_preempt=1,
                       instances=inst, family="different-documents")
    for sname in ("bound,docs",) if tier == "quick" else ("bound,docs", "unbound,docs"):
        for a, bs in SEQUENCED:
            for first in (0, 1):
                for lo in ("sorted", "reversed"):
                    yield dict(BASE, start_name=sname, start=STARTS[sname], calls=[a, {"op": "seq", "ops": bs}], mode="cd",
                               max_preempt=2 if tier == "quick" else 3, firsts=[first], list_order=lo, family="sequenced")
    if tier == "thorough":
        # conflict-directed enumeration: every schedule with <=3 preemptions up to commutation of independent steps
        for sname in STARTS:
            for a, b in itertools.combinations_with_replacement(range(len(MENU)), 2):
                for first in (0, 1):
                    yield dict(BASE, start_name=sname, start=STARTS[sname], calls=[MENU[a], MENU[b]], mode="cd", max_preempt=3,
                               firsts=[first], family="conflict-directed")
    for sname in STARTS:
        for a, b in itertools.combinations_with_replacement(range(len(MENU)), 2):
            two = tier == "thorough" or (has_delete(MENU[a]) and has_delete(MENU[b]))
            case = dict(BASE, start_name=sname, start=STARTS[sname], calls=[MENU[a], MENU[b]], mode="enum",
                        max_preempt=2 if two else 1)
            if two:   # split the quadratic enumeration into 8 independent slices
                for first in (0, 1):
                    for k in range(4):
                        yield dict(case, firsts=[first], i_mod=[4, k])
            else:
                yield case


@st.composite
def _case(draw, tier):
    sname = draw(st.sampled_from(sorted(STARTS)))
    n = draw(st.sampled_from([2, 3, 3]))
    calls = [draw(st.sampled_from(MENU)) for _ in range(n)]
    order = draw(st.permutations(list(range(n))))
    pre = draw(st.lists(st.tuples(st.integers(0, 25), st.integers(0, 1)), min_size=1, max_size=4))
    return dict(BASE, start_name=sname, start=STARTS[sname], calls=calls, mode="gen", order=list(order),
                preemptions=[list(p) for p in pre])


def strategy(tier):
    return _case(tier)


NOT_FOUND = {("err", "ValueError"), ("err", "FileNotFoundError")}


def make_widen(world):
    """Reader widening: a reader is lock-free, so it need not agree with the order that explains the
    writers - but it must return a complete version it could see in SOME sequential order, or a
    not-found error when the document can be absent in some sequential order."""
    def widen(op, actual, seq_outcome, all_seq):
        if op["op"] != "rmeta":
            return False
        if actual in NOT_FOUND:
            return any(o in NOT_FOUND for o in all_seq)
        return actual in all_seq
    return widen


def judge(ctx, world, case, calls, order, pre, ex, mp_mode=False):
    desc = (f"start={case['start_name']} program={[conc.op_pattern(c, world) + ('/v' + str(c['d']) if 'd' in c else '') for c in calls]} "
            f"schedule: order={order} preemptions={pre}")
    sig = {"ops": sorted(conc.op_pattern(c, world) for c in calls)}
    if ex.deadlock:
        ctx.violation("deadlock", f"{desc}: no thread runnable: {ex.deadlock}", dict(sig, failure="deadlock"))
        return
    why = conc.linearizable(world, calls, ex, mp_mode, widen=make_widen(world))
    if why:
        seq_errs = {o[1] for vec in why["sequential_outcomes"] for o in vec if o[0] == "err"}
        unexpected = [o[1] for c, o in zip(calls, ex.outcomes) if o[0] == "err" and o[1] not in seq_errs and c["op"] != "rmeta"]
        versions = {("ok", hashlib.sha256(b).hexdigest()[:16], len(b)) for b in world.docs}
        partial = [o for c, o in zip(calls, ex.outcomes) if c["op"] == "rmeta" and o[0] == "ok" and o not in versions]
        reader_nf = [o for c, o in zip(calls, ex.outcomes) if c["op"] == "rmeta" and o in NOT_FOUND]
        failure = ("reader-saw-partial-document" if partial else "unexpected-error:" + unexpected[0] if unexpected
                   else "reader-not-found-without-delete" if reader_nf and not any(has_delete(c) for c in calls)
                   else "state-unreachable-sequentially" if not why["state_matches_some_order"] else "outcome-state-combination-unreachable")
        ctx.violation("not-linearizable", f"{desc}: outcomes {ex.outcomes}, final documents "
                      f"{sorted((k[1][:8], v[:8]) for k, v in ex.alpha['metadata'].items())}, residue {ex.alpha['residue'][:3]} "
                      f"equal no sequential order; failure class: {failure}; sequential outcome vectors: "
                      f"{why['sequential_outcomes'][:4]}", dict(sig, failure=failure))


def run_case(case, ctx):
    fsi.install()
    world = conc.World(case, ctx)
    calls = case["calls"]
    ctx.evaluations -= 1

    def doc(c):
        if c["op"] == "seq":
            return "all"
        return "all" if c["op"] in ("delete",) or (c["op"] == "dmeta" and c["fmt"] is None) else c.get("fmt") or "default"
    confl = any(doc(a) == doc(b) or "all" in (doc(a), doc(b)) for a, b in itertools.combinations(calls, 2))
    if case["mode"] == "enum":
        n = 0
        for order, pre, ex in conc.single_preemption_schedules(world, calls, max_preempt=case.get("max_preempt", 1),
                                                                firsts=case.get("firsts", (0, 1)),
                                                                i_mod=tuple(case.get("i_mod", (1, 0))),
                                                                **({"instances": case["instances"]} if case.get("instances") else {})):
            ctx.count()
            n += 1
            judge(ctx, world, case, calls, order, pre, ex)
            if pre and (confl or case.get("family") == "different-documents"):
                ctx.nontrivial([case["start_name"], [conc.op_pattern(c, world) + str(c.get("d")) for c in calls], order, pre, ex.outcomes])
            if any(ex.waited):
                ctx.classify("some-thread-waited")
        ctx.classify("enumerated-programs")
        ctx.classify("enumerated-schedules", n)
        if confl and n > 30:
            ctx.sample({"start": case["start_name"], "program": [conc.op_pattern(c, world) for c in calls], "schedules_explored": n,
                        "max_preemptions": case.get("max_preempt", 1)})
    elif case["mode"] == "cd":
        n = 0
        stats = {}
        for order, pre, ex, stats in conc.conflict_directed_schedules(world, calls, max_preempt=case.get("max_preempt", 3),
                                                                      firsts=tuple(case.get("firsts", (0, 1))),
                                                                      **({"list_order": case["list_order"]} if case.get("list_order") else {})):
            ctx.count()
            n += 1
            judge(ctx, world, case, calls, order, pre, ex)
            if pre and confl:
                ctx.nontrivial([case["start_name"], "cd", [conc.op_pattern(c, world) + str(c.get("d")) for c in calls], order, pre, ex.outcomes])
        if case.get("family") == "sequenced":
            ctx.classify("sequenced-programs")
            ctx.classify("sequenced-schedules", n)
            return
        ctx.classify("conflict-directed-programs")
        ctx.classify("conflict-directed-schedules", n)
        ctx.classify("conflict-directed: positions pruned as independent", stats.get("pruned", 0))
    elif case["mode"] == "triple":
        for a in case["holds"]:
            pre = c07.hwp_preemptions(a)
            ex = conc.run_program(world, calls, [0, 1, 2], pre)
            if ex.used_preemptions == 0:
                break
            ctx.count()
            judge(ctx, world, case, calls, [0, 1, 2], [list(x) for x in pre], ex)
            ctx.nontrivial([case["start_name"], [conc.op_pattern(c, world) + str(c.get("d")) for c in calls], a, ex.outcomes])
        ctx.classify("holder-second-third-programs")
    else:
        ex = conc.run_program(world, calls, case["order"], [tuple(p) for p in case["preemptions"]])
        ctx.count()
        judge(ctx, world, case, calls, case["order"], case["preemptions"], ex)
        ctx.classify(f"generated-{len(calls)}-threads")
        if confl and ex.used_preemptions >= 1:
            ctx.nontrivial([case["start_name"], [conc.op_pattern(c, world) + str(c.get("d")) for c in calls], case["order"],
                            case["preemptions"], ex.outcomes])
            ctx.sample({"start": case["start_name"], "program": [conc.op_pattern(c, world) for c in calls], "order": case["order"],
                        "preemptions": case["preemptions"], "outcomes": [o[:2] for o in ex.outcomes]})
