"""C11 - metadata documents: faithful round trip, isolation and lifetime."""
import hashlib

from hypothesis import strategies as st

from .. import common, gen, ops, seq
from ..common import is_ok

ID = "C11"
LEVEL = "exploration"
RULE = ("Hypothesis draws histories (<=30 calls) of store_metadata / retrieve_metadata / "
        "delete_metadata(one) / delete_metadata(all) / store_object / delete_object over pids "
        "{a, ab, abc, b} and formats {omitted, the default namespace spelled out, c, bc, two URIs} - so "
        "('ab','c') and ('a','bc') concatenate to the same string - with documents that are empty, "
        "short, equal-length variants of one another, or 3 buffers + 1 byte, supplied as path or "
        "stream. Oracle: a map (pid, resolved format) -> bytes maintained from the calls; retrieve "
        "returns exactly the last stored bytes or raises ValueError; deletes remove exactly their "
        "keys; deleting the absent is silent; after every call the metadata tree on disk equals the "
        "image of the map (independent path computation) and metadata/tmp is empty. One third of the cases run "
        "on a simulated file system with coarse (1 h) timestamp granularity (stat results truncated at the OS "
        "boundary). Non-trivial = >=2 "
        "(pid, format) pairs alive at once and >=1 overwrite, delete-all or delete_object; distinct key "
        "= sequence of (op, pid, format class, outcome)."
        ' One case in three inserts a ping-pong: the same document stored as v1 by one instance, v2 by a second instance on the same directory, v1 again by the first.')
ASSUMPTIONS = ["single thread", "format ids are non-empty strings without whitespace, or omitted"]
PIDS = ["a", "ab", "abc", "b"]
NS = common.DEFAULT_NS
FORMATS = [None, NS, "c", "bc", "http://ns.example/v1", "http://ns.example/v1#x"]


def examples(tier):
    return 3200 if tier == "quick" else 60000


@st.composite
def _case(draw, tier):
    cfg = draw(gen.store_cfgs())
    d0 = draw(st.binary(min_size=1, max_size=24))
    d1 = bytes((b + 1) % 256 for b in d0)          # same length, different bytes
    docs = [{"hex": ""}, {"hex": d0.hex()}, {"hex": d1.hex()}, {"pat": d0[:4].hex(), "n": 3 * 8192 + 1}]
    # a per-case pool of 3 formats (always one spelling of the default) makes overwrites and collisions likely
    fpool = draw(st.sampled_from([
        [None, "c", "bc"], [NS, "c", "bc"],     # ('ab','c') and ('a','bc') concatenate to the same string
        [None, NS, "c"], [None, "bc", FORMATS[4]], [NS, FORMATS[4], FORMATS[5]]]))
    ppool = draw(st.sampled_from([PIDS, PIDS[:2], ["ab", "a", "abc"]]))
    op = ops.weighted(
        (9, ops.smeta_op(ppool, fpool, 4, kinds=("str", "path", "file", "bytesio", "relpath", "shortreads", "gzip", "rwfile"))),
        (5, ops.rmeta_op(ppool, fpool + [None])),
        (4, ops.dmeta_op(ppool, [f for f in fpool if f is not None])),
        (2, ops.store_op(ppool, 2, allow_none=False, validation=False)),
        (3, ops.delete_op(ppool)),
        (1, ops.decoy_op(ppool, tuple(fpool))),
        (1, ops.REOPEN))
    hist = draw(ops.history(ops.on_instances(op), 2, 30))
    # one case in three: 'ping-pong' - the same document stored as v1 by one instance, v2 by ANOTHER instance on the same
    # directory (another process), then v1 again by the first (per-instance memory of "what I wrote last" goes stale)
    if draw(st.integers(0, 2)) == 0:
        pp = {"op": "smeta", "pid": draw(st.sampled_from(ppool)), "fmt": draw(st.sampled_from(fpool)), "kind": "str", "offset": 0}
        a, b = draw(st.sampled_from([(1, 2), (2, 1), (1, 3), (0, 1)]))
        first = draw(st.integers(0, 1))
        at = draw(st.integers(0, len(hist)))
        mid = [dict(pp, d=b, inst=1 - first)]
        if draw(st.booleans()):
            mid.insert(draw(st.integers(0, 1)), {"op": "dmeta", "pid": pp["pid"], "fmt": pp["fmt"] or NS, "inst": 1 - first})
        hist[at:at] = [dict(pp, d=a, inst=first)] + mid + [dict(pp, d=a, inst=first)]
    return {"cfg": cfg, "contents": [{"hex": "6f31"}, {"hex": "6f32"}], "docs": docs,
            "ops": hist,
            # environment variant: a file system with coarse (1 hour) timestamp granularity
            "coarse_mtime": draw(st.sampled_from([False, False, True])),
            # the store may be opened through a symbolic link or through a path relative to the current directory
            "root_via": draw(st.sampled_from([None] * 4 + ["symlink", "relative", "relative"]))}


def strategy(tier):
    return _case(tier)


def run_case(case, ctx):
    from .. import fsi
    run = seq.Run(case, ctx)
    if case.get("coarse_mtime"):
        with fsi.active(run.root, lambda ev: None) as fctx:
            fctx.stat_filter = fsi.coarse_mtime_filter(3600)
            ctx.classify("coarse-timestamp-file-system")
            return _run(case, ctx, run)
    return _run(case, ctx, run)


def _run(case, ctx, run):
    cfg = run.cfg
    meta = {}        # (pid, resolved fmt) -> bytes
    bound = set()    # pids with a successful store_object and no delete attempt since
    trace, feats = [], set()

    def res(f):
        return cfg.ns if f is None else f

    for op in case["ops"]:
        k, pid = op["op"], op.get("pid")
        r = run.step(op)
        d = run.describe(r)
        fmt = op.get("fmt")
        oc = "ok" if is_ok(r.out) else r.out[1]
        if k == "smeta":
            if not is_ok(r.out):
                ctx.violation("store-metadata-failed", f"{d}", {"err": r.out[1]})
            else:
                if (pid, res(fmt)) in meta:
                    feats.add("overwrite")
                meta[(pid, res(fmt))] = run.docs[op["d"]]
        elif k == "rmeta":
            want = meta.get((pid, res(fmt)))
            if want is None:
                if is_ok(r.out):
                    ctx.violation("retrieved-nonexistent", f"{d}: returned {seq._short(r.out[1])} but no "
                                  f"document is stored for ({pid!r}, {res(fmt)!r})", {})
                elif r.out[1] != "ValueError":
                    ctx.violation("wrong-not-found-error", f"{d}: expected ValueError", {"err": r.out[1]})
            else:
                if not is_ok(r.out):
                    ctx.violation("metadata-not-retrievable", f"{d}: a document is stored for "
                                  f"({pid!r}, {res(fmt)!r})", {"err": r.out[1]})
                elif r.out[1] != want:
                    ctx.violation("metadata-wrong-bytes", f"{d}: returned {seq._short(r.out[1])}, last "
                                  f"stored {seq._short(want)}", {})
        elif k == "dmeta":
            if not is_ok(r.out):
                ctx.violation("delete-metadata-failed", f"{d}", {"err": r.out[1]})
            elif fmt is None:
                if any(p == pid for p, _ in meta):
                    feats.add("delete-all")
                for key in [key for key in meta if key[0] == pid]:
                    del meta[key]
            else:
                meta.pop((pid, fmt), None)
        elif k == "store":
            if is_ok(r.out):
                bound.add(pid)
        elif k == "delete":
            if is_ok(r.out) and pid in bound:
                if any(p == pid for p, _ in meta):
                    feats.add("delete-object-with-docs")
                for key in [key for key in meta if key[0] == pid]:
                    del meta[key]
            elif not is_ok(r.out) and pid in bound:
                # a failed delete of a bound pid: resynchronise this pid's documents with the disk
                for key in [key for key in meta if key[0] == pid]:
                    if (cfg.H(pid), cfg.H(pid + key[1])) not in r.alpha["metadata"]:
                        del meta[key]
            bound.discard(pid)
        # tree on disk == image of the map
        img = {(cfg.H(p), cfg.H(p + f)): hashlib.sha256(b).hexdigest() for (p, f), b in meta.items()}
        if r.alpha["metadata"] != img:
            ctx.violation("metadata-tree-diverged", f"after {d}: disk/model differ: "
                          f"{seq._dd({'/'.join(a)[:40]: v for a, v in r.alpha['metadata'].items()}, {'/'.join(a)[:40]: v for a, v in img.items()})}"
                          f"; live pairs: {sorted((p, f[:12]) for p, f in meta)}", {"op": k})
        p = run.residue_problem(r, ["metadata"])
        if p:
            ctx.violation("metadata-residue", f"after {d}: {p}", {"op": k})
        if len(meta) >= 2:
            feats.add("two-pairs-alive")
        trace.append([k, pid, "none" if fmt is None else FORMATS.index(fmt) if fmt in FORMATS else "?", oc])
    for f in feats:
        ctx.classify(f)
    if "two-pairs-alive" in feats and feats & {"overwrite", "delete-all", "delete-object-with-docs"}:
        ctx.nontrivial(trace)
        ctx.sample({"ops": [[t[0], t[1], t[2], t[3]] for t in trace[:14]], "features": sorted(feats)})
