"""C05 - reference bookkeeping is exact after every completed call."""
import itertools

from hypothesis import strategies as st

from .. import common, gen, ops, seq
from ..common import is_ok

ID = "C05"
LEVEL = "exploration"
RULE = ("(a) bounded-exhaustive: every sequence of <=2 (quick; 702) / <=4 (thorough; 475 254) calls over the 26-call "
        "alphabet {store_object(pid in {a, ab, None}, content in {X, Y}, validation in {none, right, "
        "wrong}), tag_object(pid, cid in {cid(X), cid(Y), never stored}), delete_object(pid), "
        "delete_if_invalid_object(content, right/wrong)}; (b) Hypothesis: histories of up to 30 calls "
        "of all nine public methods over pids {a, ab, b/a, c, a non-ASCII pid, a pid that is the path of an existing file} (prefix- and suffix-related), 3 contents, "
        "3 formats, reopen. After EVERY call the outcome must be in the reference model's documented "
        "set and alpha(disk) must equal the model image: pid refs, cid lists (exact multiset of "
        "lines), objects, and no residue (tmp files, *_delete markers, misplaced files). "
        "Non-trivial = the sequence tags a cid whose object is absent, or re-stores after a delete, or "
        "puts two related pids in one list, or has a rejected call; distinct key = sequence of "
        "(op, pid, symbolic argument, outcome class)."
        ' The pid alphabet of the random part also has a non-ASCII pid and a pid that is the path of an existing file; history lengths are spread by construction.')
EXHAUSTIVE_NOTE = "all sequences up to the stated length over the 26-call alphabet are enumerated completely"
ASSUMPTIONS = ["single thread", "arguments are valid (C17 owns invalid ones)"]
PIDS = ["a", "ab", "b/a", "c", "\u00fc/\u00e9\u20ac", seq.PIDFILE[0]]   # + a non-ASCII pid, + a pid that is the path of an existing file
FORMATS = [None, "fmt:x", "fmt:y"]


def examples(tier):
    return 1000 if tier == "quick" else 40000


def _alphabet():
    al = []
    for pid in ("a", "ab"):
        for c in (0, 1):
            for v in ("none", "right", "wrong"):
                op = {"op": "store", "pid": pid, "c": c}
                if v != "none":
                    op.update(cks=v, cks_algo="sha256")
                al.append(op)
    for c in (0, 1):
        al.append({"op": "store", "pid": None, "c": c})
    for pid in ("a", "ab"):
        for cid in ({"of": 0}, {"of": 1}, {"raw": ops.NEVER_CIDS["SHA-256"]}):
            al.append({"op": "tag", "pid": pid, "cid": cid})
        al.append({"op": "delete", "pid": pid})
    for c in (0, 1):
        for v in ("right", "wrong"):
            al.append({"op": "dii", "c": c, "cks": v, "cks_algo": "sha256", "size": "right"})
    return al


def enumerate_cases(tier):
    al = _alphabet()
    base = {"cfg": {"algo": "SHA-256", "depth": 3, "width": 2},
            "contents": [{"hex": "58"}, {"hex": "5959"}], "docs": []}
    for n in ((1, 2) if tier == "quick" else (1, 2, 3, 4)):
        for seq_ in itertools.product(al, repeat=n):
            yield dict(base, ops=list(seq_), exhaustive=True)
    # a store_object whose SOURCE stream raises while it is read is a rejected call too: state as before, no temporary file
    for algo in ("SHA-256", "MD5"):
        for fail_at in (0, 1, 4096, 8192, 5 * 4096):
            for en in ("EIO", "ETIMEDOUT"):
                yield {"family": "flaky-stream", "judge_residue": True, "cfg": {"algo": algo, "depth": 2, "width": 2},
                       "contents": [{"pat": "f1a2", "n": 6 * 4096 + 7}], "fail_at": fail_at, "errno": en, "ops": []}
                # ... and so is a store_metadata whose source stream breaks (new document / overwrite of an existing one)
                for via in ("store_metadata", "store_metadata-overwrite"):
                    yield {"family": "flaky-stream", "judge_residue": True, "cfg": {"algo": algo, "depth": 2, "width": 2}, "via": via,
                           "contents": [{"pat": "f1a2", "n": 6 * 4096 + 7}], "fail_at": fail_at, "errno": en, "ops": []}


@st.composite
def _case(draw, tier):
    cfg = draw(gen.store_cfgs(vary_layout=True))
    cs = [draw(gen.contents(max_small=16, big=False)) for _ in range(2)] + [draw(gen.contents(max_small=16))]
    docs = [draw(gen.contents(max_small=16, big=False)) for _ in range(2)]
    algo = cfg["algo"]
    op = ops.weighted(
        (1, st.fixed_dictionaries({"op": st.just("store"), "pid": st.none(), "c": st.integers(0, 2), "kind": st.just("str"),
                                   "nopid_args": st.sampled_from(["wrong", "right"])})),
        (6, ops.store_op(PIDS, 3, allow_none=True, validation=True, kinds=("str", "bytesio", "file"))),
        (4, ops.tag_op(PIDS, 3, algo, never=True)),
        (6, ops.delete_op(PIDS)),
        (3, ops.dii_op(3)),
        (2, ops.smeta_op(PIDS, FORMATS, 2)),
        (1, ops.dmeta_op(PIDS, FORMATS[1:])),
        (1, ops.retrieve_op(PIDS)),
        (1, ops.hexd_op(PIDS)),
        (1, ops.decoy_op(PIDS, ("-", None, FORMATS[1]))),
        (1, ops.REOPEN))
    n = 30 if tier == "quick" else 50
    return {"cfg": cfg, "contents": cs, "docs": docs, "ops": draw(ops.history(ops.on_instances(op), 1, n)),
            "root_via": draw(st.sampled_from([None] * 6 + ["symlink", "relative"]))}


def strategy(tier):
    return _case(tier)


def run_case(case, ctx):
    if case.get("family") == "flaky-stream":
        from . import c01
        return c01._flaky_case(case, ctx)
    return _run_case(case, ctx)


def _run_case(case, ctx):
    run = seq.Run(case, ctx)
    trace, feats = [], set()
    deleted = set()
    for op in case["ops"]:
        r = run.step(op)
        d = run.describe(r)
        for name, p in (("outcome", run.outcome_problem(r)), ("refs", run.refs_problem(r)),
                        ("objects", run.objects_problem(r)), ("residue", run.residue_problem(r))):
            if p:
                ctx.violation("bookkeeping-" + name,
                              f"after step {d} (history: {[_brief(o) for o in case['ops'][:r.i]]}): {p}",
                              {"aspect": name, "op": op["op"]})
        k = op["op"]
        oc = "ok" if is_ok(r.out) else r.out[1]
        trace.append([k, op.get("pid"), _arg(op), oc])
        if not is_ok(r.out):
            feats.add("rejected")
        if k == "tag" and is_ok(r.out) and run.cid_of(op["cid"]) not in r.model.objs:
            feats.add("tag-objectless")
        if k == "delete" and is_ok(r.out):
            deleted.add(op["pid"])
        if k == "store" and is_ok(r.out) and op.get("pid") in deleted:
            feats.add("restore-after-delete")
        for l in r.model.cidref.values():
            if len(l) > 1 and any(x != y and (x in y) for x in l for y in l):
                feats.add("related-pids-share-list")
    for f in feats:
        ctx.classify(f)
    if case.get("exhaustive"):
        ctx.classify("exhaustive-sequence")
    dp = run.decoy_problem()
    if dp:
        ctx.violation("file-outside-the-store-touched", f"{dp}; history: {[(o['op'], o.get('pid')) for o in case['ops']][:14]}", {"aspect": "escape"})
    if feats:
        ctx.nontrivial(trace)
        ctx.sample({"ops": [_brief(o) for o in case["ops"][:12]], "outcomes": [t[3] for t in trace[:12]],
                    "features": sorted(feats)})


def _arg(op):
    if op["op"] == "tag":
        return "never" if "raw" in op["cid"] else f"cid{op['cid']['of']}" + ("-UPPER" if op["cid"].get("upper") else "")
    if op["op"] in ("store", "dii"):
        return [op.get("c"), op.get("cks", "none"), op.get("size", "none")]
    return op.get("fmt")


def _brief(op):
    return f"{op['op']}({op.get('pid')},{_arg(op)})"
