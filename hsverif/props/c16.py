"""C16 - multiprocessing mode behaves identically and excludes across processes."""
import gc
import itertools
import json
import os
import select
import shutil
import signal
import time

from hypothesis import strategies as st

from .. import common, conc, cov, fsi, gen, ops, sched, seq
from ..common import call, is_ok
from ..runner import HarnessError
from . import c05, c07, c12

ID = "C16"
LEVEL = "exploration"
RULE = ("Four generated families. (1) mode differential: Hypothesis histories (all nine public methods, <=20 calls, 3 "
        "related pids, reopen) run step by step on a default-mode store and on a store created with "
        "USE_MULTIPROCESSING=True (real multiprocessing.Lock / Condition / Manager().list()); every outcome and the "
        "abstract state must agree after every call. (2) owned schedules through the multiprocessing code paths: the "
        "C07 / C12 pair enumerations (conflicting pairs, every single-preemption schedule) and the holder / waiter / "
        "passer-by programs re-run with the store built in multiprocessing mode over scheduler shims for "
        "multiprocessing.Lock / Condition / Manager().list(); oracle = linearizability against sequential orders, no "
        "deadlock, no identifier left locked. (3) parked holder across REAL processes: process A (forked from the "
        "initialising process) is parked at file-system boundary k inside store_object / tag_object / delete_object / "
        "store_metadata; process B then issues a conflicting call; B must stay blocked until A resumes, or be "
        "rejected with the documented already-in-progress error - completing inside A's critical section is a "
        "violation. (4) free-running forked workers: 2-4 processes x generated programs over shared pids / contents x "
        "generated delay plans; oracle = linearizability, exit status, manager lists empty afterwards. evaluations = "
        "compared steps (1) + controlled executions (2) + process experiments (3, 4). Non-trivial = a synchronised "
        "multiprocessing branch was taken with contention (a wait, a rejection or a parked holder); distinct key = "
        "(family, program, schedule / park point).")
EXHAUSTIVE_NOTE = "family (2) enumerates all single-preemption schedules of each program; family (3) enumerates park points"
ASSUMPTIONS = ["in (3)/(4) the inter-process schedule is perturbed (park points, delays), not owned", "in (2) the "
               "multiprocessing primitives are replaced by scheduler-aware shims: it covers the duplicated code paths, not "
               "the primitives", "worker processes are forked from the process that initialised the store (as the README "
               "describes)"]
SHRINK_BUDGET = 45.0
PARK_S = 0.25

PIDS = ["a", "ab", "b/a"]
F = "fmt:1"
BASE = {"cfg": {"algo": "SHA-256", "depth": 2, "width": 2}, "contents": [{"hex": "5858585858"}, {"hex": "5959"}],
        "docs": [{"hex": "6430"}, {"hex": "6431"}, {"hex": "6432"}]}


def examples(tier):
    return 160 if tier == "quick" else 3000


def case_cost(case):
    return {"owned": 3, "park": 4}.get(case["family"], 1)


# ---- real multiprocessing stores ----------------------------------------------------------------

def make_mp_store(root, cfg):
    return common.make_store(root, cfg, real_primitives=True, mp_env=True)


def mp_lists_left(store):
    # every collection of locked identifiers the instance has (the multiprocessing-mode store has only the manager-backed
    # ones filled); found by name through instance attributes AND class-level properties
    return sched.locked_collections(store)


# ---- family 2 / 3 programs ----------------------------------------------------------------------
X, Y = 0, 1
PARK_PAIRS = {
    # name: (start ops, holder call A, contender call B, B may be rejected as in-progress)
    "store-vs-store-same-pid": ([], {"op": "store", "pid": "p", "c": X}, {"op": "store", "pid": "p", "c": Y}, True),
    "store-vs-delete-same-pid": ([], {"op": "store", "pid": "p", "c": X}, {"op": "delete", "pid": "p"}, False),
    "delete-vs-delete-same-pid": ([{"op": "store", "pid": "p", "c": X}], {"op": "delete", "pid": "p"}, {"op": "delete", "pid": "p"}, False),
    "tag-vs-tag-same-cid": ([{"op": "store", "pid": None, "c": X}], {"op": "tag", "pid": "p", "cid": {"of": X}},
                            {"op": "tag", "pid": "q", "cid": {"of": X}}, False),
    "tag-vs-tag-same-pid": ([], {"op": "tag", "pid": "p", "cid": {"of": X}}, {"op": "tag", "pid": "p", "cid": {"of": Y}}, False),
    "smeta-vs-smeta-same-doc": ([], {"op": "smeta", "pid": "p", "fmt": F, "d": 1}, {"op": "smeta", "pid": "p", "fmt": F, "d": 2}, False),
    "smeta-vs-dmeta-same-doc": ([{"op": "smeta", "pid": "p", "fmt": F, "d": 0}], {"op": "smeta", "pid": "p", "fmt": F, "d": 1},
                                {"op": "dmeta", "pid": "p", "fmt": F}, False),
}


def enumerate_cases(tier):
    # (2) owned schedules through the _mp code paths
    for case in c07.enumerate_cases("quick"):
        if case.get("family") == "holder-waiter-passer-by" or (
                case["mode"] == "enum" and "i_mod" not in case and c07.conflicting(*case["calls"])
                and case["start_name"] in ("empty", "p=X", "p=Y")) or (
                case["mode"] == "handover" and case["start_name"] == "empty"):
            yield dict(case, family="owned", src="C07")
    for case in c12.enumerate_cases("quick"):
        if case.get("family") == "holder-waiter-passer-by" or (case["mode"] == "enum" and case.get("max_preempt", 1) == 1
                                                                 and case["start_name"] == "bound,docs"):
            yield dict(case, family="owned", src="C12")
    # (5) the mode that was asked for is the mode the store runs in - or the open fails: a store opened with the variable set
    # while the multiprocessing primitives cannot be created (descriptor table / semaphore space exhausted) must not come
    # back silently in threading mode, where forked workers do not exclude one another
    for what in ("Manager", "Lock", "Condition"):
        for err in ("EMFILE", "ENOSPC", "ImportError"):
            yield dict(BASE, family="init-under-exhaustion", what=what, err=err)
    # (3) parked holder across real processes
    points = (0, 2, 5, 9, 14, 20) if tier == "quick" else tuple(range(0, 40))
    for name in PARK_PAIRS:
        for k in points:
            yield dict(BASE, family="park", pair=name, k=k)


FORK_MENU = [
    {"op": "store", "pid": "p", "c": X}, {"op": "store", "pid": "p", "c": Y}, {"op": "store", "pid": "q", "c": X},
    {"op": "tag", "pid": "q", "cid": {"of": X}}, {"op": "delete", "pid": "p"}, {"op": "delete", "pid": "q"},
    {"op": "smeta", "pid": "p", "fmt": F, "d": 1}, {"op": "smeta", "pid": "p", "fmt": F, "d": 2},
    {"op": "dmeta", "pid": "p", "fmt": None},
]


@st.composite
def _case(draw, tier):
    fam = draw(st.sampled_from(["diff", "diff", "diff", "fork"]))
    if fam == "diff":
        cfg = draw(gen.store_cfgs())
        cs = [draw(gen.contents(max_small=16, big=False)) for _ in range(2)]
        op = ops.weighted(
            (6, ops.store_op(PIDS, 2, allow_none=True, validation=True)),
            (3, ops.tag_op(PIDS, 2, cfg["algo"], never=True)),
            (5, ops.delete_op(PIDS)),
            (2, ops.dii_op(2)),
            (3, ops.smeta_op(PIDS, [None, F], 2)),
            (2, ops.rmeta_op(PIDS, [None, F])),
            (2, ops.dmeta_op(PIDS, [F])),
            (1, ops.retrieve_op(PIDS)),
            (1, ops.hexd_op(PIDS)),
            (1, ops.REOPEN))
        return {"family": "diff", "cfg": cfg, "contents": cs, "docs": [{"hex": "6430"}, {"hex": "6431"}],
                "ops": draw(ops.history(op, 2, 20))}
    sname = draw(st.sampled_from(["empty", "p=X", "p=X,q=X"]))
    n = draw(st.integers(2, 4))
    calls = [draw(st.sampled_from(FORK_MENU)) for _ in range(n)]
    delays = draw(st.lists(st.tuples(st.integers(0, n - 1), st.integers(0, 40), st.integers(1, 30)), max_size=4))
    return dict(BASE, family="fork", start_name=sname, start=c07.STARTS[sname], calls=calls,
                delays=[list(d) for d in delays])


def strategy(tier):
    return _case(tier)


# ---- family 1 ------------------------------------------------------------------------------------

def _diff_case(case, ctx):
    r_th = seq.Run(case, ctx)
    r_mp = seq.Run(case, ctx, store_factory=None)
    r_mp.factory = lambda: make_mp_store(r_mp.root, r_mp.cfg)
    r_mp.store = r_mp.factory()
    r_mp.stores = {0: r_mp.store}
    if not getattr(r_mp.store, "use_multiprocessing", True):
        ctx.violation("mode-not-selected", "USE_MULTIPROCESSING=True was set before the store was initialised but the "
                      "instance reports threading mode", {"family": "diff"})
    trace = []
    for op in case["ops"]:
        a, b = r_th.step(op), r_mp.step(op)
        ctx.count()
        oa, ob = conc.norm_outcome(op, a.out), conc.norm_outcome(op, b.out)
        if oa != ob:
            ctx.violation("modes-differ-outcome", f"step {a.i} {op}: threading mode -> {oa}, multiprocessing mode -> {ob} "
                          f"({'' if is_ok(b.out) else b.out[2][:160]}); history {[c05._brief(o) for o in case['ops'][:a.i]]}",
                          {"family": "diff", "op": op["op"]})
        if common.alpha_key(a.alpha) != common.alpha_key(b.alpha):
            ctx.violation("modes-differ-state", f"step {a.i} {op}: abstract states differ between the modes: objects "
                          f"{seq._dd(a.alpha['objects'], b.alpha['objects'])} pidrefs {seq._dd(a.alpha['pidrefs'], b.alpha['pidrefs'])} "
                          f"cidrefs {seq._dd(a.alpha['cidrefs'], b.alpha['cidrefs'])} residue {a.alpha['residue'][:2]}/{b.alpha['residue'][:2]}",
                          {"family": "diff", "op": op["op"]})
        left = mp_lists_left(r_mp.store)
        if left:
            ctx.violation("identifier-left-locked", f"step {a.i} {op}: multiprocessing mode leaves {left} locked", {"family": "diff"})
        trace.append([op["op"], op.get("pid"), oa[:2]])
    ctx.evaluations -= 1
    ctx.classify("diff-histories")
    ctx.nontrivial(["diff", trace])
    ctx.sample({"family": "mode differential", "ops": trace[:10]})
    r_mp.store = None
    r_mp.stores = {}
    gc.collect()


# ---- family 2 ------------------------------------------------------------------------------------

def _owned_case(case, ctx):
    world = conc.World(case, ctx)
    calls = case["calls"]
    judge = c07.judge if case["src"] == "C07" else c12.judge
    ctx.evaluations -= 1
    if case["mode"] == "enum":
        for order, pre, ex in conc.single_preemption_schedules(world, calls, mp_mode=True, max_preempt=1):
            ctx.count()
            judge(ctx, world, case, calls, order, pre, ex, mp_mode=True)
            if ex.locks:
                ctx.violation("identifier-left-locked", f"[owned/mp] program {[conc.op_pattern(c, world) for c in calls]} "
                              f"order={order} pre={pre}: {ex.locks}", {"family": "owned", "failure": "left-locked"})
            if any(ex.waited) or any(o == ("err", conc.IN_PROGRESS) for o in ex.outcomes):
                ctx.classify("owned-mp-contention")
                ctx.nontrivial(["owned", case["start_name"], [conc.op_pattern(c, world) for c in calls], order, pre])
    elif case["mode"] == "handover":
        for a in case["ho_a"]:
            for k in case["ho_k"]:
                pre = c07.handover_preemptions(a, k)
                ex = conc.run_program(world, calls, [0, 1, 2], pre, mp_mode=True)
                if ex.used_preemptions == 0:
                    break
                ctx.count()
                judge(ctx, world, case, calls, [0, 1, 2], [list(x) for x in pre], ex, mp_mode=True)
                if ex.waited[1]:
                    ctx.classify("owned-mp-contention")
                    ctx.nontrivial(["owned-handover", [conc.op_pattern(c, world) for c in calls], a, k])
                if ex.used_preemptions < 2:
                    break
    else:
        ex = conc.run_program(world, calls, case["order"], [tuple(p) for p in case["preemptions"]], mp_mode=True)
        ctx.count()
        judge(ctx, world, case, calls, case["order"], case["preemptions"], ex, mp_mode=True)
        if any(ex.waited):
            ctx.classify("owned-mp-contention")
            ctx.nontrivial(["owned", case["start_name"], [conc.op_pattern(c, world) for c in calls], case["preemptions"][0]])
    ctx.classify("owned-mp-programs")


# ---- families 3 and 4: real processes ----------------------------------------------------------------

def _child(world, store, d, op, w_out, on_op=None, start_fd=None):
    """Body of a forked worker: optionally wait for the start signal, run the call, report, die."""
    code = 98
    try:
        # what multiprocessing's Process._bootstrap does first in a forked worker (the workers of the
        # documented usage are multiprocessing.Pool processes, not raw forks)
        from multiprocessing import util as _mpu
        _mpu._run_after_forkers()
        if start_fd is not None:
            os.read(start_fd, 1)
        if on_op is not None:
            fsi.install()
            with fsi.active(d, on_op):
                out = world.exec_call(store, op)
        else:
            out = world.exec_call(store, op)
        msg = {"outcome": list(conc.norm_outcome(op, out)), "end": time.monotonic(),
               "detail": None if is_ok(out) else out[2][:200]}
        os.write(w_out, (json.dumps(msg) + "\n").encode())
        code = 0
    except BaseException as e:  # noqa
        try:
            os.write(w_out, (json.dumps({"outcome": ["harness", repr(e)[:200]], "end": time.monotonic()}) + "\n").encode())
        except Exception:
            pass
    finally:
        cov.dump()
        os._exit(code)


def _read_line(fd, timeout):
    buf = b""
    end = time.monotonic() + timeout
    while not buf.endswith(b"\n"):
        left = end - time.monotonic()
        if left <= 0:
            return None
        r, _, _ = select.select([fd], [], [], left)
        if not r:
            return None
        b = os.read(fd, 65536)
        if not b:
            return None
        buf += b
    return json.loads(buf.decode().strip().splitlines()[-1])


def _proc_state(pid):
    try:
        with open(f"/proc/{pid}/stat") as f:
            return f.read().rsplit(")", 1)[1].split()[0]
    except OSError:
        return "?"


def _wait_or_diagnose(fd, pids, store, soft=8.0, hard=90.0):
    """Wait for a worker's report.  Returns ("msg", report) or ("hang", evidence).  A missing report is a
    verdict only with STRUCTURAL evidence - an identifier is still listed as locked and every live worker is
    asleep over repeated samples; a slow machine alone ends as HarnessError (exit 2), never as a violation."""
    m = _read_line(fd, soft)
    if m is not None:
        return "msg", m
    t_end = time.monotonic() + hard
    asleep = 0
    while time.monotonic() < t_end:
        m = _read_line(fd, 1.0)
        if m is not None:
            return "msg", m
        states = [_proc_state(p) for p in pids]
        left = mp_lists_left(store)
        if left and all(st_ in ("S", "?", "Z") for st_ in states):
            asleep += 1
            if asleep >= 5:
                return "hang", {"locked": left, "worker_states": states}
        else:
            asleep = 0
    raise HarnessError(f"worker did not report within {soft + hard:.0f}s and no structural evidence of a hang was found")


def _reap(pids):
    for p in pids:
        try:
            os.kill(p, signal.SIGKILL)
        except OSError:
            pass
    for p in pids:
        try:
            os.waitpid(p, 0)
        except OSError:
            pass


def _park_case(case, ctx):
    start, opa, opb, may_reject = PARK_PAIRS[case["pair"]]
    world = conc.World(dict(case, start=start), ctx)
    d = world.fresh_copy()
    store = make_mp_store(d, world.cfg)
    k = case["k"]
    a_out_r, a_out_w = os.pipe()      # A -> parent: "parked" / result
    a_go_r, a_go_w = os.pipe()        # parent -> A: resume
    b_out_r, b_out_w = os.pipe()
    state = {"n": 0}

    def on_op(ev):
        if state["n"] == k:
            os.write(a_out_w, (json.dumps({"parked": ev.kind, "t": time.monotonic(),
                                           "held": sorted(mp_lists_left(store))}) + "\n").encode())
            select.select([a_go_r], [], [], PARK_S * 8)   # resumed by the parent (bounded)
        state["n"] += 1
    pa = os.fork()
    if pa == 0:
        os.close(a_out_r)
        _child(world, store, d, opa, a_out_w, on_op=on_op)
    os.close(a_out_w)
    pids = [pa]
    ctx.evaluations -= 1
    try:
        m = _read_line(a_out_r, 20)
        if m is None:
            raise HarnessError(f"parked-holder experiment: process A never reported ({case['pair']}, k={k})")
        if "parked" not in m:
            ctx.classify("park-point-beyond-call")   # A finished before boundary k: nothing to test here
            return
        if not m.get("held"):
            # A (by its OWN view of the lists) is parked at a point where it holds no identifier:
            # B completing now would be legitimate, so this park point says nothing about exclusion
            ctx.classify("park-point-outside-critical-section")
            os.write(a_go_w, b"g")
            return
        pb = os.fork()
        if pb == 0:
            os.close(b_out_r)
            _child(world, store, d, opb, b_out_w)
        os.close(b_out_w)
        pids.append(pb)
        mb = _read_line(b_out_r, PARK_S)            # does B complete while A is parked?
        ctx.count()
        t_resume = time.monotonic()
        os.write(a_go_w, b"g")
        desc = (f"[parked holder, real processes] A={conc.op_pattern(opa, world)}:{opa.get('pid')} parked before its "
                f"boundary #{k} ({m['parked']}); B={conc.op_pattern(opb, world)}:{opb.get('pid')}")
        if mb is not None:
            ob = tuple(mb["outcome"])
            if ob[0] == "harness":
                raise HarnessError(f"{desc}: worker B failed: {ob}")
            if not (may_reject and ob == ("err", conc.IN_PROGRESS)):
                ctx.violation("no-exclusion-across-processes", f"{desc}: B completed with {ob} ({mb.get('detail')}) while A "
                              f"was still parked inside its critical section", {"family": "park", "pair": case["pair"]})
            ctx.classify("park-B-rejected-in-progress")
        else:
            kind_, mb = _wait_or_diagnose(b_out_r, pids, store)
            if kind_ == "hang":
                ctx.violation("blocked-after-holder-resumed", f"{desc}: B stays blocked after A resumed: {mb}",
                              {"family": "park", "pair": case["pair"]})
                mb = None
            ctx.classify("park-B-blocked-until-resume")
        kind_, ma = _wait_or_diagnose(a_out_r, pids, store)
        if kind_ == "hang":
            ctx.violation("holder-never-returned", f"{desc}: A stays blocked after being resumed: {ma}",
                          {"family": "park", "pair": case["pair"]})
            ma = None
        if ma is None:
            pass
        elif tuple(ma["outcome"])[0] == "harness":
            raise HarnessError(f"{desc}: worker A failed: {ma}")
        elif tuple(ma["outcome"])[0] == "err" and tuple(ma["outcome"])[1] in ("ValueError", "KeyError", "AttributeError"):
            ctx.violation("holder-failed-after-contention", f"{desc}: A ended with {ma['outcome']} ({ma.get('detail')}); B: "
                          f"{mb and mb['outcome']}", {"family": "park", "pair": case["pair"]})
        for p in pids:
            os.waitpid(p, 0)
        pids = []
        left = mp_lists_left(store)
        if left:
            ctx.violation("identifier-left-locked", f"{desc}: after both processes finished: {left}", {"family": "park"})
        ctx.nontrivial(["park", case["pair"], k])
        ctx.sample({"family": "parked holder", "pair": case["pair"], "park_before_boundary": k, "parked_at": m["parked"],
                    "B": mb and mb["outcome"][:2], "A": ma and ma["outcome"][:2]})
    finally:
        _reap(pids)
        for fd in (a_out_r, a_go_r, a_go_w, b_out_r):
            try:
                os.close(fd)
            except OSError:
                pass
        store = None
        gc.collect()
        shutil.rmtree(d, ignore_errors=True)


def _fork_case(case, ctx):
    world = conc.World(case, ctx)
    calls = case["calls"]
    d = world.fresh_copy()
    store = make_mp_store(d, world.cfg)
    go_r, go_w = os.pipe()
    outs, pids = [], []
    delays = {}
    for w, k, ms in case["delays"]:
        if w < len(calls):
            delays.setdefault(w, {})[k] = ms / 1000.0
    ctx.evaluations -= 1
    try:
        for i, op in enumerate(calls):
            r, w = os.pipe()
            plan = delays.get(i, {})
            st_ = {"n": 0}

            def on_op(ev, plan=plan, st_=st_):
                dly = plan.get(st_["n"])
                st_["n"] += 1
                if dly:
                    time.sleep(dly)
            pid = os.fork()
            if pid == 0:
                os.close(r)
                os.close(go_w)
                _child(world, store, d, op, w, on_op=on_op, start_fd=go_r)
            os.close(w)
            outs.append(r)
            pids.append(pid)
        os.write(go_w, b"g" * len(calls))
        res = []
        for i, r in enumerate(outs):
            kind_, m = _wait_or_diagnose(r, pids, store)
            if kind_ == "hang":
                ctx.violation("worker-never-returned", f"[forked workers] program {[conc.op_pattern(c, world) + ':' + str(c.get('pid')) for c in calls]} "
                              f"delays {case['delays']}: worker {i} stays blocked: {m}",
                              {"family": "fork", "failure": "hang"})
                return
            if m["outcome"][0] == "harness":
                raise HarnessError(f"forked worker failed: {m}")
            res.append(tuple(m["outcome"]))
        for p in pids:
            os.waitpid(p, 0)
        pids = []
        ctx.count()
        ex = conc.Execution()
        ex.outcomes, ex.alpha, ex.deadlock, ex.log = tuple(res), world.final_state(d), None, []
        desc = {"start_name": case["start_name"]}
        c07.judge(ctx, world, dict(case, **desc), calls, "os-scheduled", case["delays"], ex, mp_mode=True)
        left = mp_lists_left(store)
        if left:
            ctx.violation("identifier-left-locked", f"[forked workers] after all workers exited: {left}", {"family": "fork"})
        if any(o == ("err", conc.IN_PROGRESS) for o in res):
            ctx.classify("fork-rejected-in-progress")
        ctx.classify(f"fork-{len(calls)}-workers")
        ctx.nontrivial(["fork", case["start_name"], [conc.op_pattern(c, world) + str(c.get("pid")) for c in calls], case["delays"]])
        ctx.sample({"family": "forked workers", "program": [conc.op_pattern(c, world) + ":" + str(c.get("pid")) for c in calls],
                    "delays": case["delays"], "outcomes": [o[:2] for o in res]})
    finally:
        _reap(pids)
        for fd in outs + [go_r, go_w]:
            try:
                os.close(fd)
            except OSError:
                pass
        store = None
        gc.collect()
        shutil.rmtree(d, ignore_errors=True)


def run_case(case, ctx):
    try:
        return _run_case(case, ctx)
    except common.ModeNotHonoured as e:
        ctx.violation("multiprocessing-mode-not-honoured", f"[{case.get('family')}] {e}", {"family": case.get("family"), "failure": "mode"})


def _init_exhaustion_case(case, ctx):
    import errno
    import multiprocessing
    from .. import sched
    sched.install_dispatch()
    sched.set_mode("real")
    common.cold_module()
    root = os.path.join(ctx.scratch("c16init"), "store")
    real = getattr(multiprocessing, case["what"])

    def failing(*a, **k):
        if case["err"] == "ImportError":
            raise ImportError("This platform lacks a functioning sem_open implementation [injected]")
        code = getattr(errno, case["err"])
        raise OSError(code, os.strerror(code) + " [injected]")
    old_env = os.environ.get("USE_MULTIPROCESSING")
    os.environ["USE_MULTIPROCESSING"] = "True"
    setattr(multiprocessing, case["what"], failing)
    try:
        out = call(common.hs().FileHashStore, common.Cfg("SHA-256", 2, 2).props(root))
    finally:
        setattr(multiprocessing, case["what"], real)
        if old_env is None:
            os.environ.pop("USE_MULTIPROCESSING", None)
        else:
            os.environ["USE_MULTIPROCESSING"] = old_env
        sched.set_mode("shim")
    if is_ok(out) and not bool(getattr(out[1], "use_multiprocessing", True)):
        ctx.violation("mode-not-selected", f"USE_MULTIPROCESSING=True was set before the store was initialised and multiprocessing."
                      f"{case['what']}() failed with {case['err']}: the constructor returned a store that runs in THREADING mode "
                      f"(workers forked from this process would not exclude one another) instead of failing", {"family": "init"})
    ctx.classify("init-under-exhaustion:" + ("refused" if not is_ok(out) else "opened"))
    ctx.nontrivial(["init-under-exhaustion", case["what"], case["err"], "ok" if is_ok(out) else out[1]])


def _run_case(case, ctx):
    fsi.install()
    fam = case["family"]
    if fam == "init-under-exhaustion":
        return _init_exhaustion_case(case, ctx)
    if fam == "diff":
        return _diff_case(case, ctx)
    if fam == "owned":
        return _owned_case(case, ctx)
    if fam == "park":
        return _park_case(case, ctx)
    return _fork_case(case, ctx)
