"""C01 - stored bytes come back unchanged, addressed by their own hash."""
import hashlib
import os

from hypothesis import strategies as st

from .. import common, gen, ops, seq
from ..common import is_ok

ID = "C01"
LEVEL = "exploration"
RULE = ("Hypothesis draws (store algorithm, content with boundary-biased size, kind of data argument, "
        "stream offset, optional rejected first attempt, a history of 0-10 calls on other pids that "
        "share / re-store / delete / invalidate the same content, interleaved with retrieves). "
        "Oracle: cid == hashlib digest of the whole content under the store algorithm, obj_size == "
        "len, every retrieve_object(pid) before delete_object(pid) returns exactly the bytes, a "
        "caller's stream is open and at its original offset afterwards - also (enumerated family) after a "
        "store_object that FAILED with an injected one-off EIO at each of its fault sites, for each stream kind x "
        "offset x size. Non-trivial = not (path "
        "string input, offset 0, size off every buffer boundary, empty history); distinct key = "
        "(kind, algorithm, size class, offset class, shape of the history).")
ASSUMPTIONS = ["contents up to 5*8192+1 bytes", "single thread", "local POSIX file system (tmpfs)"]

OTHERS = ["target:pid", "the/target:pid.2", "THE/TARGET:PID", "th\u00e9/target:pid\u20acx"]  # a suffix, an extension, a case variant and a non-ASCII variant of the target pid
TARGET = "the/target:pid"


def examples(tier):
    return 1400 if tier == "quick" else 100000


def _other_ops(algo):
    n = 2
    return ops.weighted(
        (3, ops.store_op(OTHERS + [None], n, allow_none=False, validation=True)),
        (2, ops.tag_op(OTHERS, n, algo, never=False)),
        (3, ops.delete_op(OTHERS)),
        (2, ops.dii_op(n)),
        (1, ops.smeta_op(OTHERS, ["f1", None], 1)),
        (1, ops.dmeta_op(OTHERS, ["f1"])),
        (1, ops.REOPEN),
    )


def _sharing_ops(algo):
    """Focused alphabet: the other pids share and un-share the TARGET's content (the cid list is rewritten around it)."""
    return ops.weighted(
        (4, ops.store_op(OTHERS, 1, allow_none=False, validation=False)),
        (3, ops.delete_op(OTHERS)),
        (1, ops.tag_op(OTHERS, 1, algo, never=False)))


@st.composite
def _case(draw, tier):
    cfg = draw(gen.store_cfgs())
    content = draw(gen.contents())
    other = draw(gen.contents(big=False))
    kind = draw(st.sampled_from(ops.KINDS))
    n = len(common.make_content(content))
    offset = draw(st.one_of(st.just(0), st.just(n), st.integers(0, max(n, 1)))) if kind in (
        "file", "bytesio", "bufreader", "rwfile", "shortreads") else 0
    with_pid = draw(st.sampled_from([True, True, True, False]))
    reject_first = draw(st.sampled_from([None, None, None, "size", "cks"])) if with_pid else None
    alphabet = _sharing_ops if draw(st.integers(0, 3)) == 0 else _other_ops
    hist = draw(ops.history(alphabet(cfg["algo"]), 0, 10)) if with_pid else []
    # calls on the other pids BEFORE the target is stored (they may own the content first)
    pre = draw(st.lists(alphabet(cfg["algo"]), min_size=0, max_size=3)) if with_pid else []
    return {"cfg": cfg, "contents": [content, other], "docs": [{"hex": "6d657461"}], "kind": kind,
            "offset": offset, "with_pid": with_pid, "reject_first": reject_first, "ops": hist, "pre": pre,
            # the caller hands the very same stream object to a second store_object (another pid) right after the first returned
            "reuse_stream": draw(st.integers(0, 3)) == 0,
            # ... and after a REFUSED first attempt the retry uses the same stream while the application lets go of the first
            # attempt's exception object at the k-th file-system step of the retry
            "drop_exceptions_at": draw(st.sampled_from([None, None, 0, 1, 2, 3, 5, 8, 12])),
            # the pid under test is ALREADY bound to other content when the store arrives (after the calls on the other pids): the
            # store is then refused (C03's business) - but if it reports success, it is a successful store like any other
            "target_bound_before": draw(st.integers(0, 5)) == 0}


def strategy(tier):
    return _case(tier)


def enumerate_cases(tier):
    """Stream left open at its offset also when the call FAILS part-way: every fault site (one-off EIO) of
    store_object(pid, stream) for each stream kind x offset x content size."""
    sizes = [{"hex": "73686f7274"}, {"pat": "ab", "n": 8192 + 1}] + ([{"pat": "cd", "n": 3 * 8192}] if tier == "thorough" else [])
    for kind in ("file", "bytesio", "bufreader"):
        for content in sizes:
            for offset in (0, 3):
                yield {"family": "stream-fault", "cfg": {"algo": "SHA-256", "depth": 2, "width": 2}, "contents": [content],
                       "kind": kind, "offset": offset}
    # the CALLER's stream fails once while it is being read (e.g. a network file system time-out)
    for algo in ("SHA-256", "MD5"):
        for fail_at in (0, 1, 4096, 8192, 5 * 4096):
            for en in ("ETIMEDOUT", "EIO", "EAGAIN", "ESTALE"):
                yield {"family": "flaky-stream", "cfg": {"algo": algo, "depth": 2, "width": 2},
                       "contents": [{"pat": "f1a2", "n": 6 * 4096 + 7}], "fail_at": fail_at, "errno": en}


class _FlakyRaw:
    pass


def _flaky_stream(data, fail_at, errno_name):
    import errno
    import io

    class Raw(io.RawIOBase):
        def __init__(self):
            self.pos, self.failed = 0, False

        def readable(self):
            return True

        def seekable(self):
            return True

        def seek(self, off, whence=0):
            self.pos = off if whence == 0 else self.pos + off if whence == 1 else len(data) + off
            return self.pos

        def tell(self):
            return self.pos

        def readinto(self, b):
            if not self.failed and self.pos >= fail_at:
                self.failed = True
                code = getattr(errno, errno_name)
                raise OSError(code, "injected read failure of the caller's stream")
            chunk = data[self.pos:self.pos + len(b)]
            b[:len(chunk)] = chunk
            self.pos += len(chunk)
            return len(chunk)
    return io.BufferedReader(Raw(), buffer_size=4096)


def _flaky_case(case, ctx):
    run = seq.Run(dict(case, ops=[]), ctx)
    data = run.contents[0]
    stream = _flaky_stream(data, case["fail_at"], case["errno"])
    if case.get("via", "store_object").startswith("store_metadata"):
        return _flaky_metadata_case(case, ctx, run, data, stream)
    before = common.alpha(run.root, run.cfg)
    out = common.call(run.store.store_object, TARGET, stream)
    if case.get("judge_residue") and not is_ok(out):
        # (C05) a call that failed because the CALLER's stream broke is a completed, rejected call: the store is as before
        # and no temporary file is left behind
        after = common.alpha(run.root, run.cfg)
        if after["residue"]:
            ctx.violation("bookkeeping-residue", f"store_object(stream whose read fails once with {case['errno']} at offset "
                          f"{case['fail_at']}) raised {out[1]} and left {after['residue'][:3]} behind", {"aspect": "residue", "op": "store"})
        if common.alpha_key(after) != common.alpha_key(before):
            ctx.violation("bookkeeping-refs", f"store_object(stream whose read fails once) raised {out[1]} and changed the store",
                          {"aspect": "state", "op": "store"})
    what = f"store_object(stream whose read fails once with {case['errno']} at offset {case['fail_at']}, {len(data)} bytes)"
    if is_ok(out):
        om = out[1]
        want = run.cfg.digest(data)
        o = common.retrieve_bytes(run.store, TARGET)
        import hashlib
        bad = [a for a, v in om.hex_digests.items() if v != hashlib.new(a, data).hexdigest()]
        if om.cid != want or om.obj_size != len(data) or bad or not is_ok(o) or o[1] != data:
            ctx.violation("success-with-wrong-content", f"{what} returned normally with cid={om.cid[:16]}.. (true {want[:16]}..), "
                          f"obj_size={om.obj_size}, wrong digests for {bad}, retrieve -> "
                          f"{o[1] if not is_ok(o) else seq._short(o[1])}", {"what": "flaky stream"})
        ctx.classify("flaky-stream-store-succeeded")
    else:
        ctx.classify("flaky-stream-store-raised")
        if stream.closed:
            ctx.violation("stream-closed", f"caller's stream was closed by {what}", {"what": "flaky stream"})
    ctx.nontrivial(["flaky", case["cfg"]["algo"], case["fail_at"], case["errno"], "ok" if is_ok(out) else "raised"])
    ctx.sample({"family": "caller's stream fails once", "fail_at": case["fail_at"], "errno": case["errno"],
                "outcome": "ok" if is_ok(out) else out[1]})



def _flaky_metadata_case(case, ctx, run, data, stream):
    """(C05 / C11) store_metadata whose SOURCE stream raises while it is read: a completed, rejected call - no temporary file,
    the previous version (or absence) of the document as before; a reported success holds exactly the supplied bytes."""
    overwrite = case["via"].endswith("overwrite")
    if overwrite:
        common.call(run.store.store_metadata, TARGET, common.write_file(os.path.join(run.src, "v0.xml"), b"<previous-version/>"), "fmt:flaky")
    before = common.alpha(run.root, run.cfg)
    out = common.call(run.store.store_metadata, TARGET, stream, "fmt:flaky")
    after = common.alpha(run.root, run.cfg)
    what = (f"store_metadata({'existing' if overwrite else 'new'} document, stream whose read fails once with {case['errno']} at offset "
            f"{case['fail_at']}, {len(data)} bytes)")
    got = common.retrieve_meta_bytes(run.store, TARGET, "fmt:flaky")
    if is_ok(out):
        if not is_ok(got) or got[1] != data:
            ctx.violation("success-with-wrong-content", f"{what} returned normally; retrieve_metadata -> "
                          f"{got[1] if not is_ok(got) else seq._short(got[1])}", {"what": "flaky stream", "op": "smeta"})
        ctx.classify("flaky-stream-store_metadata-succeeded")
    else:
        if after["residue"]:
            ctx.violation("bookkeeping-residue", f"{what} raised {out[1]} and left {after['residue'][:3]} behind",
                          {"aspect": "residue", "op": "smeta"})
        if common.alpha_key(after) != common.alpha_key(before):
            ctx.violation("bookkeeping-refs", f"{what} raised {out[1]} and changed the store", {"aspect": "state", "op": "smeta"})
        if stream.closed:
            ctx.violation("stream-closed", f"caller's stream was closed by {what}", {"what": "flaky stream", "op": "smeta"})
        ctx.classify("flaky-stream-store_metadata-raised")
    ctx.nontrivial(["flaky-smeta", case["cfg"]["algo"], case["fail_at"], case["errno"], overwrite, "ok" if is_ok(out) else "raised"])


def _stream_fault_case(case, ctx):
    import io
    import os
    from .. import fault, fsi
    fsi.install()
    run = seq.Run(dict(case, ops=[]), ctx)
    data = run.contents[0]
    ctx.evaluations -= 1
    k = 0
    while k < 200:
        d = os.path.join(run.work, f"sf{k}")
        store = common.make_store(d, run.cfg)
        arg, stream = run.data_arg(0, case["kind"], case["offset"])
        pos = stream.tell()
        inj = fault.Injector(d, k, "EIO", False)
        with fsi.active(d, inj):
            out = common.call(store.store_object, TARGET, arg)
        if inj.fired is None:
            run.close()
            break
        ctx.count()
        if is_ok(out):
            # the call reported success although an operation failed: the round trip must still hold
            o = common.retrieve_bytes(store, TARGET)
            om = out[1]
            if om.obj_size != len(data) or not is_ok(o) or o[1] != data:
                ctx.violation("success-with-wrong-content", f"store_object({case['kind']} stream, {len(data)} bytes) with "
                              f"{inj.describe()} returned obj_size={om.obj_size} and the pid yields "
                              f"{o[1] if not is_ok(o) else seq._short(o[1])}", {"what": "faulted store_object"})
        what = f"a store_object({case['kind']} stream at offset {pos}, {len(data)} bytes) that failed with {inj.describe()}"
        if stream.closed:
            ctx.violation("stream-closed", f"caller's stream was closed by {what}", {"what": "failed store_object"})
        elif stream.tell() != pos:
            ctx.violation("stream-offset", f"caller's stream is at {stream.tell()} after {what}; it was at {pos}",
                          {"what": "failed store_object"})
        ctx.nontrivial(["stream-fault", case["kind"], case["offset"], len(data), k, "ok" if is_ok(out) else "raised"])
        run.close()
        common.rmtree(d)
        k += 1
    # short writes: every fd-level os.write under the store root writes only half of what it was given
    # (legal OS behaviour, e.g. at a quota / file-size limit); buffered file objects retry by themselves
    d = os.path.join(run.work, "sw")
    store = common.make_store(d, run.cfg)
    arg, stream = run.data_arg(0, case["kind"], case["offset"])
    with fsi.active(d, lambda ev: None) as fctx:
        fctx.write_hook = lambda n: max(1, n // 2)
        out = common.call(store.store_object, TARGET, arg)
    ctx.count()
    if is_ok(out):
        o = common.retrieve_bytes(store, TARGET)
        if out[1].obj_size != len(data) or not is_ok(o) or o[1] != data:
            ctx.violation("short-write-lost-data", f"store_object({case['kind']} stream, {len(data)} bytes) under short os.write()s "
                          f"returned obj_size={out[1].obj_size}; the pid yields {o[1] if not is_ok(o) else seq._short(o[1])}",
                          {"what": "short writes"})
    run.close()
    ctx.classify("stream-fault-scenarios")
    ctx.sample({"family": "stream left alone by a failing call", "kind": case["kind"], "offset": case["offset"],
                "len": len(data), "fault_sites": k})


def _check_stream(ctx, r, what):
    s = r.extra.get("stream")
    if s is None:
        return
    if s["closed"]:
        ctx.violation("stream-closed", f"caller's stream was closed by {what}", {"what": what})
    elif s["tell"] != s["pos"]:
        ctx.violation("stream-offset", f"caller's stream at {s['tell']} after {what}, was at {s['pos']}",
                      {"what": what})


def run_case(case, ctx):
    if case.get("family") == "stream-fault":
        return _stream_fault_case(case, ctx)
    if case.get("family") == "flaky-stream":
        return _flaky_case(case, ctx)
    run = seq.Run(case, ctx)
    data = run.contents[0]
    cfg = run.cfg
    pid = TARGET if case["with_pid"] else None
    kind, offset = case["kind"], case["offset"]
    for op in case.get("pre", []):
        run.step(op)
    # optional first attempt that must be rejected and must leave the stream alone
    if case.get("reject_first"):
        op = {"op": "store", "pid": pid, "c": 0, "kind": kind, "offset": offset, "cks_algo": "sha256"}
        if case["reject_first"] == "size":
            op.update(size="wrong", dsize=1)
        else:
            op.update(cks="wrong", flip=3)
        r = run.step(op)
        if is_ok(r.out):
            ctx.violation("bad-validation-accepted", f"{run.describe(r)}")
        _check_stream(ctx, r, "a rejected store_object")
    # (given by path: the caller's file is a private copy that the caller REWRITES IN PLACE right after the call)
    rebinding = bool(case.get("target_bound_before")) and pid is not None and len(run.contents) > 1 and run.contents[1] != data
    if rebinding:
        run.step({"op": "store", "pid": pid, "c": 1})
        ctx.classify("pid-already-bound-to-other-content")
    main_op = {"op": "store", "pid": pid, "c": 0, "kind": kind, "offset": offset, "clobber_source": True}
    if case.get("reject_first") and case.get("drop_exceptions_at") is not None and pid is not None:
        main_op.update(reuse_stream=True, drop_exceptions_at=case["drop_exceptions_at"])
        ctx.classify("retry-with-the-same-stream-while-the-first-exception-is-released")
    r = run.step(main_op)
    if rebinding and not is_ok(r.out):
        return      # refused, as it should be: nothing to round-trip
    if not is_ok(r.out):
        ctx.violation("store-failed", f"store_object({kind}, {len(data)} bytes, offset {offset}) "
                      f"raised {r.out[1]}: {r.out[2]}", {"kind_arg": kind, "err": r.out[1]})
        return
    om = r.out[1]
    want = hashlib.new(cfg.halgo, data).hexdigest()
    if om.cid != want:
        ctx.violation("cid-not-digest", f"cid {om.cid} != {cfg.halgo}(content)={want} "
                      f"(kind={kind}, offset={offset}, len={len(data)})")
    if om.obj_size != len(data):
        ctx.violation("wrong-size", f"obj_size {om.obj_size} != {len(data)} (kind={kind}, offset={offset})")
    _check_stream(ctx, r, "store_object")
    if case.get("reuse_stream") and r.extra.get("stream") and not r.extra["stream"]["closed"]:
        # "A stream supplied by the caller is left open and at its original offset": so it can be handed over again as it is
        r2 = run.step({"op": "store", "pid": "reuse:" + TARGET, "c": 0, "kind": kind, "offset": offset, "reuse_stream": True})
        if not is_ok(r2.out):
            ctx.violation("store-failed", f"second store_object with the same {kind} stream (as the first call left it) raised "
                          f"{r2.out[1]}: {r2.out[2]}", {"kind_arg": kind, "err": r2.out[1], "what": "stream re-used"})
        elif r2.out[1].cid != want or r2.out[1].obj_size != len(data):
            ctx.violation("cid-not-digest", f"second store_object with the same {kind} stream reported cid {r2.out[1].cid[:16]}.. / "
                          f"{r2.out[1].obj_size} bytes, the content has {want[:16]}.. / {len(data)}", {"what": "stream re-used"})
        _check_stream(ctx, r2, "the second store_object with the same stream")
        ctx.classify("stream-handed-over-twice")

    def check_retrieve(when):
        out = common.retrieve_bytes(run.store, pid)
        if not is_ok(out):
            ctx.violation("not-retrievable", f"retrieve_object(pid) raised {out[1]}: {out[2][:200]} "
                          f"{when}", {"err": out[1]})
        elif out[1] != data:
            ctx.violation("wrong-bytes", f"retrieve_object(pid) returned {seq._short(out[1])}, stored "
                          f"{seq._short(data)} {when}")

    shape = []
    if pid is not None:
        check_retrieve("right after the store")
        for op in case["ops"]:
            r = run.step(op)
            shape.append(op["op"] + ("!" if not is_ok(r.out) else ""))
            check_retrieve(f"after step {run.describe(r)}")
    # classification
    n = len(data)
    sc = gen.size_class(n)
    oc = "0" if offset == 0 else "end" if offset >= n else "mid"
    ctx.classify("kind=" + kind)
    ctx.classify("size=" + sc)
    ctx.classify("algo=" + cfg.algo)
    if case["ops"]:
        ctx.classify("with-history")
    if case.get("pre"):
        ctx.classify("other-pids-active-before-the-store")
    trivial = kind == "str" and offset == 0 and sc in ("small", "multi") and not case["ops"] and not case.get("pre")
    if not trivial:
        ctx.nontrivial([kind, cfg.algo, sc, oc, shape, [o["op"] for o in case.get("pre", [])]])
        ctx.sample({"kind": kind, "algo": cfg.algo, "len": n, "offset": offset, "with_pid": case["with_pid"],
                    "reject_first": case.get("reject_first"), "history": shape})
