"""C02 - reported checksums are true and depend only on the call that asked."""
import hashlib

from hypothesis import strategies as st

from .. import common, gen, ops, seq
from ..common import is_ok

ID = "C02"
LEVEL = "exploration"
RULE = ("Hypothesis draws a history of 1-10 calls on ONE store directory (mostly one instance, "
        "sometimes a second instance of the same store): store_object with/without pid and with "
        "additional / checksum algorithms drawn from the 12 supported algorithms x the spelling "
        "grammar (lower/UPPER/Title x ''/'-'/'_'), get_hex_digest under every spelling, deletes "
        "and re-stores of a pid with other content. Oracle (independent hashlib + independent "
        "name normaliser): key set of hex_digests == 5 defaults + algorithms named in THAT call, "
        "every value true, get_hex_digest true, no grammar spelling rejected. Non-trivial = the "
        "call is not the first on its instance, or names a non-default algorithm, or a "
        "non-canonical spelling; distinct key = (position class, canonical algorithms named, "
        "spelling shapes, preceding op kinds).")
ASSUMPTIONS = ["store_object without a pid is not given algorithm arguments (the interface ignores them there)",
               "checksums supplied for validation are correct (C06 owns wrong ones)"]
PIDS = ["p.a", "p.b"]


def examples(tier):
    return 4000 if tier == "quick" else 150000


def _store(apool, insts):
    algo = st.one_of(gen.algo_spelling(apool), gen.algo_spelling(apool), gen.algo_spelling())
    return st.fixed_dictionaries({
        "op": st.just("store"), "pid": st.sampled_from(PIDS + [None]), "c": st.integers(0, 2),
        "add": st.one_of(st.none(), algo), "cks": st.sampled_from(["none", "right", "upper"]),
        "cks_algo": algo, "kind": st.sampled_from(["str", "bytesio"]), "inst": insts})


def _op(apool, insts):
    algo = st.one_of(gen.algo_spelling(apool), gen.algo_spelling(apool), gen.algo_spelling())
    return ops.weighted(
        (5, _store(apool, insts)),
        (5, st.fixed_dictionaries({"op": st.just("hexd"), "pid": st.sampled_from(PIDS),
                                   "algo": algo, "inst": insts})),
        (3, st.fixed_dictionaries({"op": st.just("delete"), "pid": st.sampled_from(PIDS), "inst": insts})),
        (1, ops.REOPEN))


@st.composite
def _case(draw, tier):
    cfg = draw(gen.store_cfgs())
    cs = [draw(gen.contents(max_small=24, big=False)) for _ in range(2)] + [draw(gen.contents())]
    # a small per-case pool of algorithms makes repeated (pid, algorithm) questions likely
    apool = draw(st.lists(st.sampled_from(common.ALL_DIGESTS), min_size=1, max_size=2, unique=True))
    insts = draw(st.sampled_from([st.just(0), st.sampled_from([0, 0, 0, 1]), st.sampled_from([0, 1])]))
    return {"cfg": cfg, "contents": cs, "ops": draw(st.lists(_op(apool, insts), min_size=1, max_size=12))}


def strategy(tier):
    return _case(tier)


def enumerate_cases(tier):
    """Digests must also be true when the CALLER's stream fails once while being read (see C01): the store may
    raise, but if it reports success every reported digest is the digest of the stored content."""
    from . import c01
    for case in c01.enumerate_cases(tier):
        if case.get("family") == "flaky-stream":
            yield case


def run_case(case, ctx):
    if case.get("family") == "flaky-stream":
        from . import c01
        return c01._flaky_case(case, ctx)
    run = seq.Run(case, ctx)
    prev = []
    # every (pid, algorithm, instance) question asked during the history is asked again at the end
    asked = []
    for op in case["ops"]:
        if op["op"] == "hexd":
            q = {"op": "hexd", "pid": op["pid"], "algo": op["algo"], "inst": op.get("inst", 0)}
            if q not in asked:
                asked.append(q)
    all_ops = list(case["ops"]) + asked
    for i, op in enumerate(all_ops):
        r = run.step(op)
        k = op["op"]
        if not is_ok(r.out) and r.out[1] == "UnsupportedAlgorithm":
            ctx.violation("spelling-rejected", f"{run.describe(r)}: an accepted spelling was rejected",
                          {"op": k})
        named = []
        if k == "store" and is_ok(r.out) and "ok" in r.exp:
            om, data = r.out[1], run.contents[op["c"]]
            want = set(r.exp["ok"]["keys"])
            got = set(om.hex_digests)
            named = sorted(want - set(common.DEFAULT_DIGESTS))
            if got != want:
                ctx.violation("digest-keys", f"step {i} {op}: hex_digests keys {sorted(got)} != "
                              f"{sorted(want)} (defaults + algorithms named in this call); "
                              f"earlier calls: {[o['op'] for o in all_ops[:i]]}",
                              {"extra": sorted(got - want), "missing": sorted(want - got)})
            for a, v in om.hex_digests.items():
                try:
                    true = hashlib.new(a, data).hexdigest()
                except Exception:
                    continue
                if v != true:
                    ctx.violation("digest-value", f"step {i} {op}: hex_digests[{a}]={v} but the true "
                                  f"digest is {true}")
        elif k == "hexd":
            e = r.exp
            if "ok" in e and is_ok(r.out) and r.out[1] != e["ok"]:
                ctx.violation("hexdigest-value", f"step {i} get_hex_digest({op['pid']}, {op['algo']}) = "
                              f"{r.out[1]}, true digest of the pid's current content is {e['ok']}; "
                              f"history: {all_ops[:i]}")
            if "err" in e and is_ok(r.out):
                ctx.violation("hexdigest-for-unbound-pid", f"step {i} get_hex_digest({op['pid']}, "
                              f"{op['algo']}) returned {r.out[1]} although the pid is not bound to a "
                              f"present object (expected {sorted(e['err'])}); history: {all_ops[:i]}")
            if "ok" in e and not is_ok(r.out):
                ctx.violation("hexdigest-failed", f"step {i} get_hex_digest({op['pid']}, {op['algo']}) "
                              f"raised {r.out[1]}: {r.out[2][:160]} for a bound pid", {"err": r.out[1]})
            named = [gen.canon(op["algo"])]
        if k in ("store", "hexd"):
            spell = [s for s in (op.get("add"), op.get("cks_algo") if op.get("cks", "none") != "none"
                                 else None, op.get("algo")) if s]
            if k == "store" and op.get("pid") is None:
                spell = []
            noncanon = [s for s in spell if s != gen.canon(s)]
            nondefault = [a for a in named if a not in common.DEFAULT_DIGESTS]
            if i > 0 or nondefault or noncanon:
                ctx.nontrivial([min(i, 3), k, sorted(set(named)), sorted(_shape(s) for s in noncanon),
                                prev[-3:], op.get("inst", 0)])
            if nondefault:
                ctx.classify("names-non-default-algo")
            if noncanon:
                ctx.classify("non-canonical-spelling")
            if i > 0:
                ctx.classify("not-first-call")
            if op.get("inst", 0) == 1:
                ctx.classify("second-instance")
        prev.append(k)
    ctx.sample({"cfg": case["cfg"]["algo"], "ops": case["ops"][:6]})


def _shape(s):
    return ("U" if s.isupper() else "l" if s.islower() else "T") + ("-" if "-" in s else "_" if "_" in s else "")
