"""C02 - reported checksums are true and depend only on the call that asked."""
import hashlib

from hypothesis import strategies as st

from .. import common, conc, gen, ops, seq
from ..common import is_ok

ID = "C02"
LEVEL = "exploration"
RULE = ("Hypothesis draws a history of 1-10 calls on ONE store directory (mostly one instance, "
        "sometimes a second instance of the same store): store_object with/without pid and with "
        "additional / checksum algorithms drawn from the 12 supported algorithms x the spelling "
        "grammar (lower/UPPER/Title x ''/'-'/'_'), get_hex_digest under every spelling, deletes "
        "and re-stores of a pid with other content. Oracle (independent hashlib + independent "
        "name normaliser): key set of hex_digests == 5 defaults + algorithms named in THAT call, "
        "every value true, get_hex_digest true, no grammar spelling rejected. Non-trivial = the "
        "call is not the first on its instance, or names a non-default algorithm, or a "
        "non-canonical spelling; distinct key = (position class, canonical algorithms named, "
        "spelling shapes, preceding op kinds). Family 'overlap': two calls that ask for digests (get_hex_digest x "
        "get_hex_digest / store_object / retrieve+read) run as two threads on ONE instance under every "
        "single-preemption schedule of the owned scheduler, with every read of a store file a yield point "
        "before AND after the OS call; each answer must still be the true digest."
        ' Enumerated family faulted-store (round 9): store_object naming an additional and / or a checksum algorithm, content absent / unreferenced / referenced before, with an EIO at every fault site in turn - plainly, and reported AFTER the rename / replace / link took effect (a lost reply); the call may raise, but a reported success must carry exactly the five defaults plus the algorithms of that call, all true, and get_hex_digest must agree.')
ASSUMPTIONS = ["store_object without a pid is not given algorithm arguments (the interface ignores them there)",
               "checksums supplied for validation are correct (C06 owns wrong ones)"]
PIDS = ["p.a", "p.b"]


def examples(tier):
    return 4000 if tier == "quick" else 150000


def _store(apool, insts):
    algo = st.one_of(gen.algo_spelling(apool), gen.algo_spelling(apool), gen.algo_spelling())
    return st.fixed_dictionaries({
        "op": st.just("store"), "pid": st.sampled_from(PIDS + [None]), "c": st.integers(0, 2),
        "add": st.one_of(st.none(), algo), "cks": st.sampled_from(["none", "right", "upper"]),
        "cks_algo": algo, "kind": st.sampled_from(["str", "bytesio"]), "inst": insts})


def _op(apool, insts):
    algo = st.one_of(gen.algo_spelling(apool), gen.algo_spelling(apool), gen.algo_spelling())
    return ops.weighted(
        (5, _store(apool, insts)),
        (5, st.fixed_dictionaries({"op": st.just("hexd"), "pid": st.sampled_from(PIDS),
                                   "algo": algo, "inst": insts})),
        (3, st.fixed_dictionaries({"op": st.just("delete"), "pid": st.sampled_from(PIDS), "inst": insts})),
        (1, ops.REOPEN))


@st.composite
def _case(draw, tier):
    cfg = draw(gen.store_cfgs())
    cs = [draw(gen.contents(max_small=24, big=False)) for _ in range(2)] + [draw(gen.contents())]
    # a small per-case pool of algorithms makes repeated (pid, algorithm) questions likely
    apool = draw(st.lists(st.sampled_from(common.ALL_DIGESTS), min_size=1, max_size=2, unique=True))
    insts = draw(st.sampled_from([st.just(0), st.sampled_from([0, 0, 0, 1]), st.sampled_from([0, 1])]))
    return {"cfg": cfg, "contents": cs, "ops": draw(ops.history(_op(apool, insts), 1, 12))}


def strategy(tier):
    return _case(tier)


def enumerate_cases(tier):
    """Digests must also be true when the CALLER's stream fails once while being read (see C01): the store may
    raise, but if it reports success every reported digest is the digest of the stored content."""
    from . import c01
    for case in c01.enumerate_cases(tier):
        if case.get("family") == "flaky-stream":
            yield case
    yield from _overlap_cases(tier)
    yield from _late_cases(tier)
    yield from _digest_fault_cases(tier)
    # short OS-level writes while the object is written (quota / file-size limit): success must still mean true digests
    for algo in ("SHA-256", "SHA-384"):
        for content in ({"hex": "73686f7274"}, {"pat": "ab", "n": 8192 + 1}, {"pat": "cd", "n": 3 * 8192}):
            for kind in ("str", "bytesio", "file"):
                for frac in (2, 3):
                    yield {"family": "short-writes", "cfg": {"algo": algo, "depth": 2, "width": 2}, "contents": [content],
                           "kind": kind, "frac": frac}


def _late_cases(tier):
    """A store_object whose file-system operations fail part-way - reported although the operation took effect (a lost reply),
    or plainly - may raise; if it nevertheless reports success (the store recovered on its own), the map it returns is the map
    of THAT call: exactly the defaults plus the algorithms it named, every value true."""
    for algo in ("SHA-256", "MD5") if tier == "quick" else ("SHA-256", "MD5", "SHA-512"):
        for prior in ("absent", "unreferenced", "referenced"):
            for add, ca in (("sha224", None), ("SHA3-256", "blake2s"), (None, "SHA-224"), ("sha3_512", "md5")):
                for mode in ("late", "one-off"):
                    yield {"family": "faulted-store", "cfg": {"algo": algo, "depth": 2, "width": 2},
                           "contents": [{"pat": "6c61", "n": 8192 + 11}], "prior": prior, "add": add, "cks_algo": ca, "mode": mode}


def _digest_fault_cases(tier):
    """get_hex_digest while a read of the object fails (EIO at the open or at the k-th read): it may raise; a value it RETURNS is
    the true digest (never the digest of the prefix read so far)."""
    for algo in ("SHA-256", "MD5"):
        for asked in ("sha256", "MD5", "sha3_256", "SHA-512") if tier == "quick" else sorted(common.ALL_DIGESTS):
            yield {"family": "faulted-digest", "cfg": {"algo": algo, "depth": 2, "width": 2},
                   "contents": [{"pat": "6469", "n": 3 * 65536 + 17}], "asked": asked}


def _digest_fault_case(case, ctx):
    import os
    from .. import fault, fsi, gen
    fsi.install()
    run = seq.Run(dict(case, ops=[]), ctx)
    data = run.contents[0]
    ctx.evaluations -= 1
    d = os.path.join(run.work, "fd")
    store = common.make_store(d, run.cfg)
    common.call(store.store_object, "p.a", run.cpaths[0])
    true = hashlib.new(gen.canon(case["asked"]), data).hexdigest()
    k = 0
    while k < 400:
        inj = fault.Injector(d, k, "EIO", False)
        with fsi.active(d, inj) as fctx:
            fctx.read_boundaries = True
            out = common.call(store.get_hex_digest, "p.a", case["asked"])
        if inj.fired is None:
            break
        ctx.count()
        if is_ok(out) and out[1] != true:
            ctx.violation("faulted-digest", f"get_hex_digest(p.a, {case['asked']}) on a {case['cfg']['algo']} store with {inj.describe()} "
                          f"returned {out[1][:16]}.., the digest of the {len(data)} bytes is {true[:16]}..", {"what": "faulted digest"})
        ctx.nontrivial(["faulted-digest", case["cfg"]["algo"], case["asked"], inj.fired.kind, k, "ok" if is_ok(out) else out[1]])
        k += 1
    ctx.classify("faulted-digest-programs")
    run.close()


def _late_case(case, ctx):
    import os
    from .. import fault, fsi, gen
    fsi.install()
    run = seq.Run(dict(case, ops=[]), ctx)
    data = run.contents[0]
    ctx.evaluations -= 1
    want = set(common.DEFAULT_DIGESTS) | {gen.canon(a) for a in (case["add"], case["cks_algo"]) if a}
    cks = hashlib.new(gen.canon(case["cks_algo"]), data).hexdigest() if case["cks_algo"] else None
    k = 0
    while k < 200:
        d = os.path.join(run.work, f"fs{k}")
        store = common.make_store(d, run.cfg)
        if case["prior"] != "absent":
            common.call(store.store_object, None if case["prior"] == "unreferenced" else "p.earlier", run.cpaths[0])
        inj = fault.Injector(d, k, "EIO", "late" if case["mode"] == "late" else False)
        with fsi.active(d, inj) as fctx:
            if case["mode"] == "late":
                fctx.after_path_op = inj.after
            out = common.call(store.store_object, "p.a", run.cpaths[0], case["add"], cks, case["cks_algo"])
        if inj.fired is None:
            break
        ctx.count()
        where = (f"store_object(p.a, {len(data)} bytes, additional={case['add']}, checksum_algorithm={case['cks_algo']}) on a "
                 f"{case['cfg']['algo']} store, content {case['prior']} before, with {inj.describe()}")
        if is_ok(out):
            got = out[1].hex_digests
            if set(got) != want:
                ctx.violation("faulted-store-keys", f"{where}: returned normally with keys {sorted(got)}, expected {sorted(want)}",
                              {"what": "faulted store", "mode": case["mode"]})
            for a, v in got.items():
                if v != hashlib.new(a, data).hexdigest():
                    ctx.violation("faulted-store-digest", f"{where}: returned normally, hex_digests[{a}] is not the digest of the content",
                                  {"what": "faulted store", "mode": case["mode"]})
            for a in sorted(want):
                g = common.call(store.get_hex_digest, "p.a", a)
                if not is_ok(g) or g[1] != hashlib.new(a, data).hexdigest():
                    ctx.violation("faulted-store-digest", f"{where}: returned normally; get_hex_digest(p.a, {a}) -> "
                                  f"{g[1] if not is_ok(g) else g[1][:16]}", {"what": "faulted store", "mode": case["mode"]})
            ctx.classify("faulted-store-reported-success")
        ctx.nontrivial(["faulted-store", case["cfg"]["algo"], case["prior"], case["add"], case["cks_algo"], case["mode"], inj.fired.kind,
                        "ok" if is_ok(out) else out[1]])
        common.rmtree(d)
        k += 1
    ctx.classify("faulted-store-programs")
    run.close()


OV_CONTENTS = [[{"hex": "00" * 7}, {"hex": "ff" * 7}, {"hex": "0a0a41"}],                       # same length
               [{"pat": "ab", "n": 8192 + 3}, {"hex": "cd"}, {"pat": "0a", "n": 300}],            # multi-buffer vs tiny, many lines
               # around 64 KiB (lines of 1 KiB: the store hashes an object line by line, and with read boundaries every line is two
               # scheduling points - 35 000 two-byte lines made one execution 70 000 steps long and the enumeration endless)
               [{"pat": "6f" * 1023 + "0a", "n": 70000}, {"pat": "70", "n": 65536}, {"hex": ""}]]


def _overlap_cases(tier):
    algos = ["sha256", "MD5", "sha3_256", "SHA-512"] if tier == "quick" else list(common.ALL_DIGESTS)
    cfgs = [{"algo": "SHA-256", "depth": 3, "width": 2}] + ([] if tier == "quick" else [{"algo": "MD5", "depth": 1, "width": 4}])
    for cfg in cfgs:
        for ci, cs in enumerate(OV_CONTENTS[:2 if tier == "quick" else 3]):
            for ai, a in enumerate(algos):
                b = algos[(ai + 1) % len(algos)]
                others = [{"op": "hexd", "pid": "p.b", "algo": b}, {"op": "hexd", "pid": "p.b", "algo": a},
                          {"op": "hexd", "pid": "p.a", "algo": b},
                          {"op": "store", "pid": "p.c", "c": 2, "add": b}, {"op": "retrieve", "pid": "p.b"}]
                for o in others:
                    yield {"family": "overlap", "cfg": cfg,
                           "contents": cs, "start": [{"op": "store", "pid": "p.a", "c": 0}, {"op": "store", "pid": "p.b", "c": 1}],
                           "calls": [{"op": "hexd", "pid": "p.a", "algo": a}, o]}


def case_cost(case):
    return 30 if case.get("family") == "overlap" else 8 if case.get("family") == "faulted-store" else 1


def _short_writes_case(case, ctx):
    import os
    from .. import fsi
    fsi.install()
    run = seq.Run(dict(case, ops=[]), ctx)
    data = run.contents[0]
    ctx.evaluations -= 1
    d = os.path.join(run.work, "sw")
    store = common.make_store(d, run.cfg)
    arg, _stream = run.data_arg(0, case["kind"], 0)
    with fsi.active(d, lambda ev: None) as fctx:
        fctx.write_hook = lambda n: max(1, n - n // case["frac"])
        out = common.call(store.store_object, "p.a", arg, "sha3_256")
    ctx.count()
    if is_ok(out):
        held = common.retrieve_bytes(store, "p.a")
        for a, v in out[1].hex_digests.items():
            if v != hashlib.new(a, data).hexdigest() or not is_ok(held) or v != hashlib.new(a, held[1]).hexdigest():
                ctx.violation("short-write-digest", f"store_object({case['kind']}, {len(data)} bytes) under short OS writes succeeded "
                              f"and reports hex_digests[{a}]={v[:16]}.., which is not the digest of the supplied content and of what "
                              f"the store holds ({seq._short(held[1]) if is_ok(held) else held[1]})", {"what": "short writes"})
            g = common.call(store.get_hex_digest, "p.a", a)
            if is_ok(g) and g[1] != v:
                ctx.violation("short-write-digest", f"after a store_object under short OS writes get_hex_digest(p.a, {a}) = {g[1][:16]}.. "
                              f"but the store call reported {v[:16]}..", {"what": "short writes"})
    ctx.nontrivial(["short-writes", case["kind"], len(data), case["frac"], case["cfg"]["algo"], "ok" if is_ok(out) else out[1]])
    ctx.classify("short-write-stores")
    run.close()


def _overlap_case(case, ctx):
    world = conc.World(case, ctx)
    calls = case["calls"]
    ctx.evaluations -= 1
    bound = {"p.a": 0, "p.b": 1}

    def exec_call(store, op):
        if op["op"] == "store":
            return common.call(store.store_object, op["pid"], world.cpaths[op["c"]], op["add"])
        return conc.World.exec_call(world, store, op)
    world.exec_call = exec_call
    n = 0
    for order, pre, ex in conc.single_preemption_schedules(world, calls, read_boundaries=True):
        ctx.count()
        n += 1
        if ex.deadlock:
            ctx.violation("overlap-deadlock", f"{calls} under order={order} preemptions={pre}: {ex.deadlock}")
        for op, raw in zip(calls, ex.raw):
            where = f"{calls} on one instance, schedule order={order} preemptions(after n steps)={pre}"
            if not is_ok(raw):
                ctx.violation("overlap-call-failed", f"{op} raised {raw[1]}: {str(raw[2])[:160]} when overlapped with the other call; {where}",
                              {"err": raw[1], "op": op["op"]})
            if op["op"] == "hexd":
                true = hashlib.new(gen.canon(op["algo"]), world.contents[bound[op["pid"]]]).hexdigest()
                if raw[1] != true:
                    ctx.violation("overlap-hexdigest-value", f"get_hex_digest({op['pid']}, {op['algo']}) = {raw[1]} but the true digest "
                                  f"of the pid's content is {true}; {where}", {"op": "hexd"})
            elif op["op"] == "store":
                data = world.contents[op["c"]]
                for a, v in raw[1].hex_digests.items():
                    if v != hashlib.new(a, data).hexdigest():
                        ctx.violation("overlap-digest-value", f"store_object hex_digests[{a}] = {v} is not the digest of the stored "
                                      f"content; {where}", {"op": "store"})
            elif op["op"] == "retrieve" and raw[1] != world.contents[bound[op["pid"]]]:
                ctx.violation("overlap-retrieve", f"retrieve_object({op['pid']}) read {seq._short(raw[1])} instead of the stored bytes; {where}")
        if pre:
            ctx.nontrivial(["overlap", [c["op"] for c in calls], [c.get("algo") for c in calls], [c.get("pid") for c in calls],
                            len(world.contents[0]), order, pre])
    ctx.classify("overlapping-asks-programs")
    ctx.classify("overlapping-asks-schedules", n)
    if n > 10 and calls[1]["op"] != "hexd":
        ctx.sample({"family": "overlap", "calls": calls, "schedules": n})


def run_case(case, ctx):
    if case.get("family") == "flaky-stream":
        from . import c01
        return c01._flaky_case(case, ctx)
    if case.get("family") == "overlap":
        return _overlap_case(case, ctx)
    if case.get("family") == "short-writes":
        return _short_writes_case(case, ctx)
    if case.get("family") == "faulted-store":
        return _late_case(case, ctx)
    if case.get("family") == "faulted-digest":
        return _digest_fault_case(case, ctx)
    run = seq.Run(case, ctx)
    prev = []
    # every (pid, algorithm, instance) question asked during the history is asked again at the end
    asked = []
    for op in case["ops"]:
        if op["op"] == "hexd":
            q = {"op": "hexd", "pid": op["pid"], "algo": op["algo"], "inst": op.get("inst", 0)}
            if q not in asked:
                asked.append(q)
    all_ops = list(case["ops"]) + asked
    for i, op in enumerate(all_ops):
        r = run.step(op)
        k = op["op"]
        if not is_ok(r.out) and r.out[1] == "UnsupportedAlgorithm":
            ctx.violation("spelling-rejected", f"{run.describe(r)}: an accepted spelling was rejected",
                          {"op": k})
        named = []
        if k == "store" and is_ok(r.out) and "ok" in r.exp:
            om, data = r.out[1], run.contents[op["c"]]
            want = set(r.exp["ok"]["keys"])
            got = set(om.hex_digests)
            named = sorted(want - set(common.DEFAULT_DIGESTS))
            if got != want:
                ctx.violation("digest-keys", f"step {i} {op}: hex_digests keys {sorted(got)} != "
                              f"{sorted(want)} (defaults + algorithms named in this call); "
                              f"earlier calls: {[o['op'] for o in all_ops[:i]]}",
                              {"extra": sorted(got - want), "missing": sorted(want - got)})
            for a, v in om.hex_digests.items():
                try:
                    true = hashlib.new(a, data).hexdigest()
                except Exception:
                    continue
                if v != true:
                    ctx.violation("digest-value", f"step {i} {op}: hex_digests[{a}]={v} but the true "
                                  f"digest is {true}")
        elif k == "hexd":
            e = r.exp
            if "ok" in e and is_ok(r.out) and r.out[1] != e["ok"]:
                ctx.violation("hexdigest-value", f"step {i} get_hex_digest({op['pid']}, {op['algo']}) = "
                              f"{r.out[1]}, true digest of the pid's current content is {e['ok']}; "
                              f"history: {all_ops[:i]}")
            if "err" in e and is_ok(r.out):
                ctx.violation("hexdigest-for-unbound-pid", f"step {i} get_hex_digest({op['pid']}, "
                              f"{op['algo']}) returned {r.out[1]} although the pid is not bound to a "
                              f"present object (expected {sorted(e['err'])}); history: {all_ops[:i]}")
            if "ok" in e and not is_ok(r.out):
                ctx.violation("hexdigest-failed", f"step {i} get_hex_digest({op['pid']}, {op['algo']}) "
                              f"raised {r.out[1]}: {r.out[2][:160]} for a bound pid", {"err": r.out[1]})
            named = [gen.canon(op["algo"])]
        if k in ("store", "hexd"):
            spell = [s for s in (op.get("add"), op.get("cks_algo") if op.get("cks", "none") != "none"
                                 else None, op.get("algo")) if s]
            if k == "store" and op.get("pid") is None:
                spell = []
            noncanon = [s for s in spell if s != gen.canon(s)]
            nondefault = [a for a in named if a not in common.DEFAULT_DIGESTS]
            if i > 0 or nondefault or noncanon:
                ctx.nontrivial([min(i, 3), k, sorted(set(named)), sorted(_shape(s) for s in noncanon),
                                prev[-3:], op.get("inst", 0)])
            if nondefault:
                ctx.classify("names-non-default-algo")
            if noncanon:
                ctx.classify("non-canonical-spelling")
            if i > 0:
                ctx.classify("not-first-call")
            if op.get("inst", 0) == 1:
                ctx.classify("second-instance")
        prev.append(k)
    ctx.sample({"cfg": case["cfg"]["algo"], "ops": case["ops"][:6]})


def _shape(s):
    return ("U" if s.isupper() else "l" if s.islower() else "T") + ("-" if "-" in s else "_" if "_" in s else "")
