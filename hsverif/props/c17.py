"""C17 - rejected and read-only calls change nothing."""
import io
import os

from hypothesis import strategies as st

from .. import common, gen, ops, seq
from ..common import call, is_ok

ID = "C17"
LEVEL = "exploration"
RULE = ("Hypothesis draws a store state (empty, or populated by a generated history of 1-8 calls that "
        "includes metadata for pids without objects and shared objects) and ONE call from a grammar "
        "of invalid invocations of every public method: identifiers {None, '', ' ', 'a b', 'a\\tb', "
        "'a\\nb', leading / trailing blank}, algorithms {sm3, md4, sha, '', 'sha 256', SHA-257}, sizes "
        "{0, -1, -39993, '12', 1.5, 'x'}, data {None, int, bytes, list, StringIO, '', ' ', missing path, "
        "directory}, checksum without algorithm and the reverse, ObjectMetadata None / dict, one bad "
        "parameter or two at once, unknown pid for retrieve / delete / get_hex_digest / "
        "retrieve_metadata; or a SUCCESSFUL retrieve_object / retrieve_metadata / get_hex_digest. "
        "Oracle: the call raises an error of the documented class for that parameter kind (ValueError "
        "for identifiers, UnsupportedAlgorithm / ValueError for algorithm names, TypeError / "
        "ValueError for sizes and data, PidRefsDoesNotExist / ValueError for unknown pids), and the "
        "snapshot of the whole store directory (every path incl. directories, size, sha256) is "
        "identical before and after; the in-memory locked-identifier lists are empty. Non-trivial = "
        "populated store or two bad parameters; distinct key = (method, bad parameter kinds and "
        "values, populated, whether the content/pid involved already exists)."
        ' Round 9: delete_if_invalid_object with BOTH checksum and algorithm None (required there, optional for store_object); one populated case in five first brings pid p1 into a partial reference state that a process death leaves (cid list missing, pid not listed, pid reference missing, object missing): read-only calls on it may fail or succeed but repair nothing.')
ASSUMPTIONS = ["for format ids only whitespace-only strings are documented as rejected; other odd format "
               "ids are checked conditionally (if the call raises, nothing changed)"]

BADID = [None, "", " ", "a b", "a\tb", "a\nb", " x", "x ", " ", "a b", "x\u00a0", "\u3000x", "x\x1c", "x\u2028y", "\x85x"]
BADALG = ["sm3", "md4", "sha", "", "  ", "sha 256", "SHA-257", "sha3256", None]
BADSIZE = [0, -1, -39993, "12", 1.5, "x"]
BADDATA = ["none", "int", "bytes", "list", "stringio", "empty", "blank", "missing", "dir", "fifo", "spooledtext", "textfile"]
PIDS = ["p1", "p2", "nobj"]


def examples(tier):
    return 2400 if tier == "quick" else 150000


def _bad(kind):
    return {"id": st.sampled_from(BADID), "alg": st.sampled_from(BADALG), "size": st.sampled_from(BADSIZE),
            "data": st.sampled_from(BADDATA)}[kind]


# method -> {param: kind}; params not listed get a valid value
GRAMMAR = {
    "store_object": {"pid": "id", "data": "data", "additional_algorithm": "alg", "checksum_algorithm": "alg",
                     "checksum": "id", "expected_object_size": "size"},
    "store_object_nopid": {"data": "data"},
    "tag_object": {"pid": "id", "cid": "id"},
    "delete_if_invalid_object": {"checksum": "id", "checksum_algorithm": "alg", "expected_file_size": "size",
                                 "object_metadata": "om"},
    "store_metadata": {"pid": "id", "metadata": "data", "format_id": "fmt"},
    "retrieve_object": {"pid": "id"},
    "retrieve_metadata": {"pid": "id", "format_id": "fmt"},
    "delete_object": {"pid": "id"},
    "delete_metadata": {"pid": "id", "format_id": "fmt"},
    "get_hex_digest": {"pid": "id", "algorithm": "alg"},
}


@st.composite
def _call(draw):
    mode = draw(st.sampled_from(["bad", "bad", "bad", "unknown", "read", "pairing"]))
    if mode == "bad":
        m = draw(st.sampled_from(sorted(GRAMMAR)))
        params = sorted(GRAMMAR[m])
        n = draw(st.sampled_from([1, 1, 2])) if len(params) > 1 else 1
        chosen = draw(st.lists(st.sampled_from(params), min_size=n, max_size=n, unique=True))
        bad = {}
        for p in chosen:
            k = GRAMMAR[m][p]
            if k == "om":
                bad[p] = draw(st.sampled_from(["none", "dict"]))
            elif k == "fmt":
                bad[p] = draw(st.sampled_from([" ", "  ", "\t", "a b", "\n"]))
            else:
                bad[p] = draw(_bad(k))
        if m == "delete_if_invalid_object" and draw(st.integers(0, 7)) == 0:
            # the whole validation pair left out (None, None): for store_object that is the ordinary call, here both are required
            bad = {"checksum": None, "checksum_algorithm": None}
        elif len(bad) == 2 and draw(st.integers(0, 5)) == 0:
            bad = {p: (None if GRAMMAR[m][p] in ("id", "alg") else v) for p, v in bad.items()}   # several arguments None at once
        return {"mode": mode, "m": m, "bad": bad, "content": draw(st.sampled_from(["new", "existing"])),
                "pid": draw(st.sampled_from(PIDS + ["fresh"])),
                # delete_if_invalid_object: which object the (valid) ObjectMetadata describes, and whether the
                # (type-valid) expected size matches it - a rejected call must not act on a semantic mismatch
                "dii_target": draw(st.sampled_from(["referenced", "unreferenced"])),
                "dii_size": draw(st.sampled_from(["match", "mismatch"]))}
    if mode == "unknown":
        return {"mode": mode, "m": draw(st.sampled_from(["retrieve_object", "delete_object", "get_hex_digest",
                                                         "retrieve_metadata", "retrieve_metadata_fmt"])),
                "pid": draw(st.sampled_from(["unknown-pid", "nobj", "p1x", "gone", "gone"]))}
    if mode == "pairing":
        return {"mode": mode, "which": draw(st.sampled_from(["checksum-only", "algo-only"])),
                "content": draw(st.sampled_from(["new", "existing"])), "pid": draw(st.sampled_from(PIDS + ["fresh"])),
                "add": draw(st.sampled_from([None, "sha224", "md5"])), "size": draw(st.sampled_from([None, 3]))}
    return {"mode": mode, "m": draw(st.sampled_from(["retrieve_object", "retrieve_metadata", "get_hex_digest"])),
            "pid": draw(st.sampled_from(["p1", "p2"])), "algo": draw(gen.algo_spelling())}


@st.composite
def _case(draw, tier):
    pop = draw(st.sampled_from([False, True, True]))
    hist = []
    if pop:
        hist = [{"op": "store", "pid": "p1", "c": 0}, {"op": "store", "pid": None, "c": 1},
                {"op": "smeta", "pid": "p1", "fmt": None, "d": 0},
                {"op": "smeta", "pid": "nobj", "fmt": None, "d": 0}, {"op": "smeta", "pid": "nobj", "fmt": "f2", "d": 1}]
        extra = ops.weighted(
            (3, ops.store_op(["p1", "p2"], 2, allow_none=True, validation=False)),
            (1, ops.delete_op(["p2"])),
            (2, ops.smeta_op(PIDS, [None, "f2"], 2)),
            (1, ops.tag_op(["p2"], 2, "SHA-256", never=True)))
        hist += draw(st.lists(extra, min_size=0, max_size=5))
        # one populated case in four: an earlier delete_object whose removal of a "_delete" marker failed (the store logs it
        # and returns normally): a left-over marker, and whatever the instance remembers about it, must not be touched by a
        # rejected or read-only call either
        if draw(st.integers(0, 3)) == 0:
            hist += [{"op": "store", "pid": "gone", "c": draw(st.sampled_from([1, 1, 0]))},
                     {"op": "delete", "pid": "gone", "fault": draw(st.sampled_from(["marker-remove", "marker-remove-all"]))}]
    # one populated case in five: p1 (and whoever shares its object) is in one of the partial reference conditions that a process
    # death inside store_object / tag_object / delete_object leaves (C10 enumerates them); read-only calls on it may fail, or
    # succeed if the bytes are still reachable - but a read-only or rejected call REPAIRS nothing: the store stays byte-for-byte
    damage = draw(st.sampled_from([None] * 4 + ["cid-list-missing", "pid-not-listed", "pid-ref-missing", "object-missing"])) if pop else None
    call_ = draw(_call())
    if damage and call_["mode"] == "read" and draw(st.booleans()):
        call_ = dict(call_, pid="p1", m=draw(st.sampled_from(["retrieve_object", "get_hex_digest"])))
    return {"cfg": {"algo": "SHA-256", "depth": 3, "width": 2}, "contents": [{"hex": "61626364"}, {"hex": "78"}],
            "docs": [{"hex": "6d31"}, {"hex": "6d32"}], "ops": hist, "call": call_, "populated": pop, "damage": damage}


def _damage(run, kind):
    """Bring pid p1 (bound to content 0 by the first step of every populated history) into the state a crash leaves."""
    import hashlib
    cfg, root = run.cfg, run.root
    cid = cfg.digest(run.contents[0])
    pidref = os.path.join(root, cfg.pidref_rel("p1"))
    cidref = os.path.join(root, cfg.cidref_rel(cid))
    obj = os.path.join(root, cfg.obj_rel(cid))
    if not (os.path.isfile(pidref) and os.path.isfile(cidref) and os.path.isfile(obj)):
        return False
    if kind == "cid-list-missing":        # first store: died between the two reference moves
        os.remove(cidref)
    elif kind == "pid-not-listed":        # additional pid of a shared object: died before the list was extended
        with open(cidref, encoding="utf-8") as f:
            lines = f.read().splitlines(keepends=True)
        keep = [ln for ln in lines if ln.rstrip("\n") != "p1"]
        if not keep:
            keep = ["someone-else\n"]
        with open(cidref, "w", encoding="utf-8") as f:
            f.write("".join(keep))
    elif kind == "pid-ref-missing":       # delete_object: died after the pid reference was taken away
        os.remove(pidref)
    else:                                 # tagged before the upload, or the object was lost
        os.remove(obj)
    return True


def strategy(tier):
    return _case(tier)


def _mkfifo(work):
    """The path of a named pipe without a writer: not a regular file, hence not data.  A store that OPENS it instead of
    rejecting it blocks for ever - a helper thread offers a writer after a second so that such a call returns (and is then
    judged as accepted) instead of hanging the harness; on a store that rejects the path the helper finds no reader and gives up."""
    import threading
    import time
    path = os.path.join(work, "named-pipe")
    if not os.path.exists(path):
        os.mkfifo(path)

    def unblock():
        for _ in range(40):
            time.sleep(0.25)
            try:
                fd = os.open(path, os.O_WRONLY | os.O_NONBLOCK)
            except OSError:
                continue       # nobody is reading (ENXIO): the normal case
            os.close(fd)
            return
    threading.Thread(target=unblock, daemon=True).start()
    return path


def _mkdata(kind, work):
    if kind == "fifo":
        return _mkfifo(work)
    if kind == "spooledtext":
        # a TEXT-mode spooled temporary file (what a web framework hands over for a form field): yields str, is an io.IOBase
        # since Python 3.11 but neither a TextIOBase nor a BufferedIOBase
        import tempfile
        f = tempfile.SpooledTemporaryFile(mode="w+", max_size=1 << 20)
        f.write("text, not bytes\n")
        f.seek(0)
        return f
    if kind == "textfile":
        p = common.write_file(os.path.join(work, "text-mode-source.txt"), b"opened in text mode\n")
        return open(p, "r", encoding="utf-8")
    return {"none": None, "int": 5, "bytes": b"bytes", "list": ["l"], "stringio": io.StringIO("t"), "empty": "",
            "blank": "  ", "missing": os.path.join(work, "no-such-file"), "dir": work}[kind]


EXPECT = {"id": {"ValueError"}, "alg": {"ValueError", "UnsupportedAlgorithm"}, "size": {"TypeError", "ValueError"},
          "data": {"TypeError", "ValueError"}, "om": {"ValueError"}, "fmt": {"ValueError"}}


def run_case(case, ctx):
    run = seq.Run(case, ctx)
    for op in case["ops"]:
        run.step(op)
    s = run.store
    c = case["call"]
    work = run.src
    damaged = bool(case.get("damage")) and _damage(run, case["damage"])
    if damaged:
        ctx.classify("partial-reference-state=" + case["damage"])
    newfile = common.write_file(os.path.join(work, "newcontent"), b"never stored before")
    good_data = run.cpaths[0] if c.get("content") == "existing" else newfile
    pid = c.get("pid", "p1")
    import hashlib
    om_good = run.om.get(0) or common.hs().ObjectMetadata(
        "HashStoreNoPid", hashlib.sha256(run.contents[0]).hexdigest(), len(run.contents[0]),
        {a: hashlib.new(a, run.contents[0]).hexdigest() for a in common.DEFAULT_DIGESTS})
    must_raise, allowed, conditional = True, set(), False
    label = None
    if c["mode"] == "bad":
        m, bad = c["m"], dict(c["bad"])
        if "data" in bad:
            bad["data"] = _mkdata(bad["data"], work)
        if "metadata" in bad:
            bad["metadata"] = _mkdata(bad["metadata"], work)
        for p in c["bad"]:
            allowed |= EXPECT[GRAMMAR[m][p]]
        g = lambda p, default: bad[p] if p in bad else default  # noqa
        if m == "store_object":
            cks_given = "checksum" in bad or "checksum_algorithm" in bad
            kw = {"additional_algorithm": g("additional_algorithm", None),
                  "checksum": g("checksum", "00" if cks_given else None),
                  "checksum_algorithm": g("checksum_algorithm", "sha256" if cks_given else None),
                  "expected_object_size": g("expected_object_size", None)}
            thepid = g("pid", pid)
            if thepid is None and "pid" in bad:
                must_raise = False  # pid None is the documented "store without tagging" form
                conditional = True
            if bad.get("additional_algorithm", 1) is None and len(bad) == 1:
                must_raise, conditional = False, True  # None = "no additional algorithm"
            if set(bad) == {"checksum", "checksum_algorithm"} and bad["checksum"] is None and bad["checksum_algorithm"] is None:
                must_raise, conditional = False, True  # both None = the ordinary call without validation
            if ("checksum" in bad) != ("checksum_algorithm" in bad) or cks_given:
                allowed |= {"ValueError", "UnsupportedAlgorithm", "NonMatchingChecksum"}
            if set(bad) == {"checksum_algorithm"} and bad["checksum_algorithm"] is None:
                allowed |= {"ValueError"}
            fn = lambda: s.store_object(thepid, g("data", good_data), **kw)  # noqa
        elif m == "store_object_nopid":
            fn = lambda: s.store_object(None, bad["data"])  # noqa
        elif m == "tag_object":
            fn = lambda: s.tag_object(g("pid", pid), g("cid", "ab" * 32))  # noqa
        elif m == "delete_if_invalid_object":
            om = om_good
            if "object_metadata" in bad:
                om = None if bad["object_metadata"] == "none" else {}
            alg = g("checksum_algorithm", "sha256")
            if alg is None:
                allowed |= {"ValueError"}
            if bad.get("expected_file_size", 1) is None:
                must_raise = False
            if c.get("dii_target") == "unreferenced" and "object_metadata" not in bad:
                data1 = run.contents[1]
                om = om_good = common.hs().ObjectMetadata(
                    "HashStoreNoPid", hashlib.sha256(data1).hexdigest(), len(data1),
                    {a: hashlib.new(a, data1).hexdigest() for a in common.DEFAULT_DIGESTS})
            good_size = om_good.obj_size + (5 if c.get("dii_size") == "mismatch" else 0)
            fn = lambda: s.delete_if_invalid_object(om, g("checksum", om_good.hex_digests["sha256"]), alg,  # noqa
                                                    g("expected_file_size", good_size))
        elif m == "store_metadata":
            if "format_id" in bad and bad["format_id"].strip():
                must_raise, conditional = len(bad) > 1, len(bad) == 1
            fn = lambda: s.store_metadata(g("pid", pid), g("metadata", run.dpaths[0]), g("format_id", None))  # noqa
        elif m == "retrieve_object":
            fn = lambda: s.retrieve_object(bad["pid"])  # noqa
        elif m == "retrieve_metadata":
            if "format_id" in bad and bad["format_id"].strip():
                must_raise, conditional = "pid" in bad, "pid" not in bad
            allowed |= {"ValueError"}
            fn = lambda: _read(s.retrieve_metadata(g("pid", "p1"), g("format_id", None)))  # noqa
        elif m == "delete_object":
            fn = lambda: s.delete_object(bad["pid"])  # noqa
        elif m == "delete_metadata":
            if "format_id" in bad and bad["format_id"].strip():
                must_raise, conditional = "pid" in bad, "pid" not in bad
            if "format_id" in bad and bad["format_id"].strip() and "pid" not in bad:
                # a legitimate (odd) format id: deleting it is a real operation; nothing to check here
                label = "skip"
            fn = lambda: s.delete_metadata(g("pid", "p1"), g("format_id", None))  # noqa
        else:
            alg = g("algorithm", "sha256")
            fn = lambda: s.get_hex_digest(g("pid", "p1"), alg)  # noqa
            if not case["populated"]:
                allowed |= {"PidRefsDoesNotExist"}
        if m == "store_metadata" and "format_id" in bad and bad["format_id"].strip() and len(bad) == 1:
            label = "skip"  # a valid store with an odd but legal format id
        label = label or f"{m}({ {k: repr(v)[:30] for k, v in c['bad'].items()} })"
        keyv = [m, sorted((k, repr(v)) for k, v in c["bad"].items())]
    elif c["mode"] == "unknown":
        m = c["m"]
        p = c["pid"]
        if m == "retrieve_object":
            fn, allowed = (lambda: s.retrieve_object(p)), {"PidRefsDoesNotExist"}
        elif m == "delete_object":
            fn, allowed = (lambda: s.delete_object(p)), {"PidRefsDoesNotExist"}
        elif m == "get_hex_digest":
            fn, allowed = (lambda: s.get_hex_digest(p, "md5")), {"PidRefsDoesNotExist"}
        elif m == "retrieve_metadata":
            if p == "nobj" and case["populated"]:
                p = "unknown-pid"
            fn, allowed = (lambda: _read(s.retrieve_metadata(p))), {"ValueError"}
        else:
            fn, allowed = (lambda: _read(s.retrieve_metadata(p, "no-such-format"))), {"ValueError"}
        label = f"{m}({p}) for an unknown pid"
        keyv = [m, p]
    elif c["mode"] == "pairing":
        kw = {"additional_algorithm": c["add"], "expected_object_size": c["size"]}
        if c["which"] == "checksum-only":
            kw["checksum"] = "00ff"
        else:
            kw["checksum_algorithm"] = "sha256"
        fn, allowed = (lambda: s.store_object(pid, good_data, **kw)), {"ValueError"}
        label = f"store_object({pid}, {c['content']} content, {kw})"
        keyv = ["pairing", c["which"], c["add"], c["size"]]
    else:
        m, p = c["m"], c["pid"]
        must_raise = False
        if damaged:
            ctx.classify("read-only-call-in-a-partial-reference-state")
        if m == "retrieve_object":
            fn = lambda: _read(s.retrieve_object(p))  # noqa
        elif m == "retrieve_metadata":
            fn = lambda: _read(s.retrieve_metadata(p))  # noqa
        else:
            fn = lambda: s.get_hex_digest(p, c["algo"])  # noqa
        label = f"read-only {m}({p})"
        keyv = ["read", m]
    if label == "skip":
        return
    before = common.snapshot(run.root)
    out = call(fn)
    after = common.snapshot(run.root)
    oc = "ok" if is_ok(out) else out[1]
    if must_raise and is_ok(out):
        ctx.violation("invalid-call-accepted", f"{label} returned normally (populated={case['populated']})",
                      {"m": c.get("m", c["mode"])})
    if must_raise and not is_ok(out) and out[1] not in allowed:
        ctx.violation("undocumented-error-class", f"{label} raised {out[1]} ({out[2][:160]}), documented: "
                      f"{sorted(allowed)}", {"m": c.get("m", c["mode"]), "err": out[1]})
    # a "bad" value that is in fact legal (pid None = store without tagging, additional_algorithm None = none)
    # makes the call an ordinary operation: it may change the store, also when it is then refused for another
    # reason (e.g. the pid is already bound, after the object was stored)
    changed_ok = c["mode"] == "bad" and not must_raise
    if before != after and not changed_ok:
        ctx.violation("store-changed", f"{label} -> {oc}: the store directory changed: "
                      f"{common.snap_diff(before, after)} (history: {[o['op'] + ':' + str(o.get('pid')) for o in case['ops']]})",
                      {"m": c.get("m", c["mode"]), "mode": c["mode"]})
    p = run.locks_problem()
    if p:
        ctx.violation("locks-left", f"{label} -> {oc}: {p}", {"m": c.get("m", c["mode"])})
    ctx.classify("mode=" + c["mode"])
    ctx.classify("outcome=" + ("ok" if is_ok(out) else "raised"))
    if case["populated"] or len(c.get("bad", {})) > 1:
        ctx.nontrivial([keyv, case["populated"], c.get("content"), c.get("pid")])
        ctx.sample({"call": label, "populated": case["populated"], "outcome": oc})


def _read(stream):
    try:
        return stream.read()
    finally:
        stream.close()
