"""C14 - store configuration is pinned at creation."""
import os
import shutil

from hypothesis import strategies as st

from .. import common, gen, seq
from ..common import call, is_ok

ID = "C14"
LEVEL = "exploration"
RULE = ("Hypothesis draws a creation configuration and a reopening configuration (depth 1-5, width "
        "1-4, algorithm from the five accepted names plus 'sha256', 'SHA256', 'sha-256', 'SHA-224', "
        "'blake2b', '', two namespaces; each integer as int or as integer-like string; key set exact / "
        "one key missing / one value None / extra keys), the reopen configuration being derived from "
        "the creation one by 0-2 field edits so that near-misses dominate; the store path is absent, an "
        "empty directory or a directory with an unrelated file; the store is left empty or populated "
        "(objects, shared objects, metadata); optionally hashstore.yaml is removed before reopening; optionally an "
        "earlier store with another configuration was created, used and removed at the same path in the same "
        "process. "
        "Oracle: creation succeeds <=> its configuration is valid; reopen succeeds <=> creation "
        "succeeded, the yaml is present and the four values are equal (integers compared as "
        "integers). Success => every object / document stored before is served with the same bytes "
        "and the directory snapshot is unchanged. Refusal => an exception and the byte-for-byte "
        "snapshot of the PARENT directory (paths, sizes, hashes, directories) is identical. "
        "Non-trivial = the two configurations differ in exactly one field or only in encoding, or "
        "the key set is not exact; distinct key = (which fields differ, encodings, key-set variant, "
        "path state, populated, yaml removed)."
        ' The three data directories may be symbolic links to directories elsewhere; the previous store at the same path may have had (and been reopened with) the configuration used for the reopen.'
        ' Round 9: the properties dictionaries list their keys in any order; hashstore.yaml may have been re-dumped by a YAML library or have lost its tail behind the four pinned values (the creating process died while the default algorithm list was written) - then acceptance is conditional, but an accepted open writes nothing and the same configuration is accepted again by a cold process.')
ASSUMPTIONS = ["single process; the store path's parent is private to the case"]

GOOD_ALGOS = sorted(common.STORE_ALGOS)
BAD_ALGOS = ["sha256", "SHA256", "sha-256", "SHA-224", "blake2b", "", "MD-5"]
NSS = [common.DEFAULT_NS, "http://ns.example/other", "ns: v2 #not-a-plain-yaml-scalar", "2.0"]
KEYS = ["store_depth", "store_width", "store_algorithm", "store_metadata_namespace"]


def examples(tier):
    return 1600 if tier == "quick" else 100000


@st.composite
def _case(draw, tier):
    create = {"store_depth": draw(st.integers(1, 5)), "store_width": draw(st.integers(1, 4)),
              "store_algorithm": draw(st.one_of(st.sampled_from(GOOD_ALGOS), st.sampled_from(GOOD_ALGOS),
                                                st.sampled_from(GOOD_ALGOS), st.sampled_from(BAD_ALGOS))),
              "store_metadata_namespace": draw(st.sampled_from(NSS))}
    reopen = dict(create)
    nedits = draw(st.sampled_from([0, 0, 1, 1, 1, 2]))
    for _ in range(nedits):
        k = draw(st.sampled_from(KEYS))
        if k == "store_depth":
            reopen[k] = draw(st.integers(1, 5))
        elif k == "store_width":
            reopen[k] = draw(st.integers(1, 4))
        elif k == "store_algorithm":
            reopen[k] = draw(st.sampled_from(GOOD_ALGOS + BAD_ALGOS + [create[k] + " ", " " + create[k], create[k] + "\n"]))
        else:
            reopen[k] = draw(st.sampled_from(NSS + [NSS[0] + "/", NSS[0].upper(), NSS[0] + "\n", " " + NSS[0], NSS[0] + " ",
                                                    create[k] + "\n", create[k] + "\t"]))
    # integers may be given as integer-like strings - also "03", " 3 ", "+3" (what int() takes)
    encs = ["int", "int", "str", "str", "str0", "strsp", "strplus"]
    if draw(st.integers(0, 9)) == 0 and create["store_depth"] != create["store_width"]:
        # the mismatching values all occur somewhere in the stored configuration: depth and width exchanged
        reopen = dict(create, store_depth=create["store_width"], store_width=create["store_depth"])
    enc_c = {k: draw(st.sampled_from(encs)) for k in KEYS[:2]}
    enc_r = {k: draw(st.sampled_from(encs)) for k in KEYS[:2]}
    return {"create": create, "reopen": reopen, "enc_c": enc_c, "enc_r": enc_r,
            "keyset": draw(st.sampled_from(["exact"] * 6 + ["missing", "none", "extra"])),
            "keyset_key": draw(st.sampled_from(KEYS)),
            "path_state": draw(st.sampled_from(["absent", "absent", "empty-dir", "unrelated-file", "file-named-like-a-store-dir"])),
            "populated": draw(st.booleans()), "yaml_removed": draw(st.sampled_from([False] * 5 + [True])),
            "bad_int": draw(st.sampled_from([None] * 9 + ["x"])),
            # opened through the class or through HashStoreFactory.get_hashstore (what the client uses)
            "via": draw(st.sampled_from(["class", "factory"])),
            # an EARLIER store with another configuration lived at the same path in this process and was removed
            # the three data directories are symbolic links to directories elsewhere (bulk data moved to another volume)
            "symlinked_dirs": draw(st.integers(0, 5)) == 0,
            # the properties dictionaries list their keys in another order than the documentation does (None = documented order)
            "key_order_c": draw(st.one_of(st.none(), st.permutations(list(range(5))))),
            "key_order_r": draw(st.one_of(st.none(), st.permutations(list(range(5))))),
            # hashstore.yaml as another writer leaves it - the four pinned values intact: re-dumped by a YAML library (no comments,
            # keys sorted), or cut short somewhere behind the pinned values (the creating process died / the disk filled up
            # while the tail of the file - the default algorithm list - was written)
            "yaml_variant": draw(st.sampled_from([None] * 6 + ["redumped", "tail-lost", "tail-lost"])),
            "yaml_cut": draw(st.integers(0, 400)),
            "previous_life": draw(st.sampled_from([None, None, "same-as-reopen", {"store_depth": 2, "store_width": 3, "store_algorithm": "SHA-384",
                                                                 "store_metadata_namespace": "http://ns.example/previous"},
                                                   {"store_depth": 3, "store_width": 2, "store_algorithm": "SHA-256",
                                                    "store_metadata_namespace": NSS[0]}]))}


def strategy(tier):
    return _case(tier)


# ---- family "race": two openers of a path that has no store yet, under every single-preemption schedule ----------
RACE_CFGS = [{"store_depth": 3, "store_width": 2, "store_algorithm": "SHA-256", "store_metadata_namespace": NSS[0]},
             {"store_depth": 3, "store_width": 2, "store_algorithm": "MD5", "store_metadata_namespace": NSS[0]},
             {"store_depth": 2, "store_width": 2, "store_algorithm": "SHA-256", "store_metadata_namespace": NSS[1]},
             {"store_depth": 3, "store_width": 2, "store_algorithm": "sha256", "store_metadata_namespace": NSS[0]}]   # invalid


def enumerate_cases(tier):
    for a in range(len(RACE_CFGS)):
        for b in range(len(RACE_CFGS)):
            for path_state in ("absent", "empty-dir"):
                yield {"family": "race", "a": a, "b": b, "path_state": path_state}


def case_cost(case):
    return 20 if case.get("family") == "race" else 1


def _yaml_cfg(root):
    import yaml
    with open(os.path.join(root, "hashstore.yaml"), encoding="utf-8") as f:
        y = yaml.safe_load(f)
    return {"store_depth": int(y["store_depth"]), "store_width": int(y["store_width"]), "store_algorithm": y["store_algorithm"],
            "store_metadata_namespace": y["store_metadata_namespace"]}


def _race_case(case, ctx):
    """A refused open must not create or modify anything - also when the refusal is the lost race against another
    opener of the same path: afterwards the winner's configuration file is there and the store opens with it."""
    from .. import fsi, sched
    fsi.install()
    cfgs = [RACE_CFGS[case["a"]], RACE_CFGS[case["b"]]]
    ctx.evaluations -= 1
    n = 0
    for first in (0, 1):
        order = [first, 1 - first]
        i = 0
        while True:
            parent = ctx.scratch("c14race")
            root = os.path.join(parent, "st")
            if case["path_state"] == "empty-dir":
                os.makedirs(root)
            s = sched.Sched(parent)
            for c in cfgs:
                s.add(lambda c=c: call(common.hs().FileHashStore, dict(c, store_path=root)))
            ch = sched.preemption_chooser(order, [(i, 0)] if i else [])
            try:
                outs = s.run(ch)
            except sched.Deadlock as dl:
                ctx.violation("openers-deadlock", f"two openers {cfgs} order={order} preemption after {i} steps: {dl.info}", {"phase": "race"})
            if i and ch.state["used"] == 0:
                shutil.rmtree(parent, ignore_errors=True)
                break
            ctx.count()
            n += 1
            desc = (f"two concurrent openers of a path without a store ({case['path_state']}): configs {cfgs}, thread order {order}, "
                    f"preemption after {i} steps; outcomes {[('ok' if is_ok(o) else o[1]) for o in outs]}")
            won = [c for c, o in zip(cfgs, outs) if is_ok(o)]
            if won:
                try:
                    y = _yaml_cfg(root)
                except Exception as e:  # noqa
                    y = None
                    ctx.violation("race-lost-configuration", f"{desc}: an opener succeeded but afterwards hashstore.yaml is missing or "
                                  f"unreadable ({type(e).__name__}: {e})", {"phase": "race"})
                if y is not None and y not in won:
                    ctx.violation("race-foreign-configuration", f"{desc}: hashstore.yaml holds {y}, which no successful opener asked for",
                                  {"phase": "race"})
                for c, o in zip(cfgs, outs):
                    if y is not None and is_ok(o) and c != y:
                        ctx.violation("race-mismatch-accepted", f"{desc}: the opener asking for {c} was not refused although the store's "
                                      f"configuration is {y}", {"phase": "race", "invalid_algorithm": c["store_algorithm"] not in GOOD_ALGOS})
                if y is not None:
                    again = call(common.hs().FileHashStore, dict(y, store_path=root))
                    if not is_ok(again):
                        ctx.violation("race-store-unopenable", f"{desc}: reopening with the configuration in hashstore.yaml raised "
                                      f"{again[1]}: {again[2][:160]}", {"phase": "race"})
            elif all(c["store_algorithm"] in GOOD_ALGOS for c in cfgs):
                ctx.violation("valid-config-refused", f"{desc}: both openers of a fresh path were refused", {"phase": "race"})
            if not won and os.path.exists(os.path.join(root, "hashstore.yaml")):
                ctx.violation("refused-create-modified-files", f"{desc}: nobody succeeded but a hashstore.yaml exists", {"phase": "race"})
            if i:
                ctx.nontrivial(["race", case["a"], case["b"], case["path_state"], order, i, [is_ok(o) for o in outs]])
            shutil.rmtree(parent, ignore_errors=True)
            i += 1
    ctx.classify("racing-openers-programs")
    ctx.classify("racing-openers-schedules", n)
    if case["a"] != case["b"]:
        ctx.sample({"family": "racing openers", "configs": cfgs, "schedules": n})


def _props(root, vals, enc, order=None):
    p = {"store_path": root}
    for k, v in vals.items():
        e = enc.get(k)
        if isinstance(v, int) and e in ("str", "str0", "strsp", "strplus"):
            v = {"str": f"{v}", "str0": f"0{v}", "strsp": f" {v} ", "strplus": f"+{v}"}[e]
        elif e == "str":
            v = str(v)
        p[k] = v
    if order:
        keys = list(p)
        p = {keys[i]: p[keys[i]] for i in order if i < len(keys)} | {k: v for k, v in p.items()}
    return p


def _rewrite_yaml(root, variant, cut, ctx):
    """hashstore.yaml as somebody else left it; the four pinned values stay what they were.  Returns False if not applicable."""
    import yaml
    path = os.path.join(root, "hashstore.yaml")
    with open(path, encoding="utf-8") as f:
        text = f.read()
    if variant == "redumped":
        new = yaml.safe_dump(yaml.safe_load(text), default_flow_style=False)
    else:
        at = text.find("store_default_algo_list")
        if at < 0:
            return False
        ends = [i + 1 for i in range(at, len(text)) if text[i] == "\n"]   # cut behind a whole line (mostly) or anywhere
        new = text[:ends[cut % len(ends)]] if ends and cut % 4 else text[:at + (cut % (len(text) - at))]
        try:
            y = yaml.safe_load(new)
        except Exception:  # noqa - cut inside a token: not a configuration file any more
            return False
        if not isinstance(y, dict) or any(k not in y for k in KEYS):
            return False
    with open(path, "w", encoding="utf-8") as f:
        f.write(new)
    ctx.classify("yaml-" + variant)
    return True


def run_case(case, ctx):
    if case.get("family") == "race":
        return _race_case(case, ctx)
    parent = ctx.scratch("c14")
    root = os.path.join(parent, "st")
    pl = case.get("previous_life")
    if pl == "same-as-reopen":
        # the earlier store had exactly the configuration that will be used for the REOPEN below (and was itself reopened
        # successfully): whatever this process remembers about "path + configuration verified" is stale by then
        pl = dict(case["reopen"]) if case["reopen"]["store_algorithm"] in GOOD_ALGOS else None
    if pl:
        prev = call(common.hs().FileHashStore, dict(pl, store_path=root))
        if is_ok(prev):
            call(prev[1].store_object, "old", common.write_file(os.path.join(parent, "oldobj"), b"previous life"))
            call(common.hs().FileHashStore, dict(pl, store_path=root))   # a reopen, too
        shutil.rmtree(root, ignore_errors=True)
        if os.path.isfile(os.path.join(parent, "oldobj")):
            os.remove(os.path.join(parent, "oldobj"))
        ctx.classify("path-had-a-previous-store")
    if case["path_state"] != "absent":
        os.makedirs(root)
        if case["path_state"] in ("unrelated-file", "file-named-like-a-store-dir"):
            common.write_file(os.path.join(root, "notes.txt"), b"unrelated")
        if case["path_state"] == "file-named-like-a-store-dir" and (case["create"]["store_algorithm"] not in GOOD_ALGOS or case["bad_int"]):
            # (only next to a configuration that is refused anyway: what a valid creation does with such a file is unspecified)
            # regular FILES that happen to be called like the store's directories: not the store's to touch
            for name in ("metadata", "refs"):
                common.write_file(os.path.join(root, name), b"a regular file, not a directory")
    src = ctx.scratch("c14src")
    f1 = common.write_file(os.path.join(src, "o1"), b"object one")
    f2 = common.write_file(os.path.join(src, "o2"), b"object two" * 900)
    m1 = common.write_file(os.path.join(src, "m1"), b"<meta/>")
    FHS = common.hs().FileHashStore
    if case.get("via") == "factory":
        import hashstore
        FHS = lambda props: hashstore.HashStoreFactory.get_hashstore("hashstore.filehashstore", "FileHashStore", props)  # noqa
        ctx.classify("opened-through-the-factory")
    create = dict(case["create"])
    if case["bad_int"]:
        create["store_depth"] = case["bad_int"]
    create_valid = create["store_algorithm"] in GOOD_ALGOS and not case["bad_int"]
    s0 = common.snapshot(parent)
    out = call(FHS, _props(root, create, case["enc_c"], case.get("key_order_c")))
    if not create_valid:
        if is_ok(out):
            ctx.violation("invalid-config-accepted", f"creation with {create} succeeded", {"phase": "create"})
        s1 = common.snapshot(parent)
        if s0 != s1:
            ctx.violation("refused-create-modified-files", f"creation with {create} was refused "
                          f"({out[1]}) but changed the directory: {common.snap_diff(s0, s1)}",
                          {"phase": "create"})
        ctx.classify("create-refused")
        ctx.nontrivial(["create-refused", create["store_algorithm"], case["path_state"], case["bad_int"]])
        return
    if not is_ok(out):
        ctx.violation("valid-config-refused", f"creation with {create} (encodings {case['enc_c']}, path "
                      f"{case['path_state']}) raised {out[1]}: {out[2][:200]}", {"phase": "create"})
        return
    store = out[1]
    stored = {}
    if case["populated"]:
        for pid, f in (("p1", f1), ("p2", f1), ("p3", f2)):
            if is_ok(call(store.store_object, pid, f)):
                stored[pid] = open(f, "rb").read()
        call(store.store_metadata, "p1", m1)
        call(store.store_metadata, "p3", m1, "fmt:other")
    if case.get("symlinked_dirs"):
        elsewhere = os.path.join(parent, "other-volume")
        os.makedirs(elsewhere)
        for sub in ("objects", "metadata", "refs"):
            shutil.move(os.path.join(root, sub), os.path.join(elsewhere, sub))
            os.symlink(os.path.join(elsewhere, sub), os.path.join(root, sub))
        ctx.classify("data-directories-are-symbolic-links")
    yaml_variant = None
    if case["yaml_removed"]:
        os.remove(os.path.join(root, "hashstore.yaml"))
    elif case.get("yaml_variant") and _rewrite_yaml(root, case["yaml_variant"], case.get("yaml_cut", 0), ctx):
        yaml_variant = case["yaml_variant"]
    s0 = common.snapshot(parent)
    reopen = dict(case["reopen"])
    props = _props(root, reopen, case["enc_r"], case.get("key_order_r"))
    if case.get("key_order_r") or case.get("key_order_c"):
        ctx.classify("properties-in-another-key-order")
    ks = case["keyset"]
    if ks == "missing":
        del props[case["keyset_key"]]
    elif ks == "none":
        props[case["keyset_key"]] = None
    elif ks == "extra":
        props["store_extra_key"] = "whatever"
        props["store_default_algo_list"] = ["MD5"]
    same = all(reopen[k] == create[k] for k in KEYS)
    has_data_dirs = True  # objects/, metadata/, refs/ always exist after a successful creation
    expect_ok = same and not case["yaml_removed"] and ks in ("exact", "extra")
    out = call(FHS, props)
    s1 = common.snapshot(parent)
    desc = f"created with {create} enc={case['enc_c']}, reopened with {props} (yaml_removed={case['yaml_removed']})"
    if ks == "extra" or (yaml_variant and expect_ok):
        # extra keys are not documented either way: only "if refused nothing changed / if accepted data visible"; the same for
        # a configuration file in another style whose four values agree (a mismatch must still be refused)
        expect = "ok" if is_ok(out) else "refuse"
    else:
        expect = "ok" if expect_ok else "refuse"
        if expect_ok and not is_ok(out):
            ctx.violation("equal-config-refused", f"{desc}: raised {out[1]}: {out[2][:200]}", {"phase": "reopen"})
        if not expect_ok and is_ok(out):
            ctx.violation("mismatch-accepted", f"{desc}: the open succeeded", {"phase": "reopen"})
    if s0 != s1:
        ctx.violation("open-modified-files", f"{desc}: outcome {'ok' if is_ok(out) else out[1]}, directory "
                      f"changed: {common.snap_diff(s0, s1)}", {"phase": "reopen", "outcome": expect})
    # (a configuration file that lost part of its default algorithm list may leave the store unable to name its own
    #  algorithm: what such a store serves is not judged - only that opening it writes nothing and stays repeatable)
    if is_ok(out) and yaml_variant == "tail-lost":
        stored = {}
    if is_ok(out):
        for pid, data in stored.items():
            o = common.retrieve_bytes(out[1], pid)
            if not is_ok(o) or o[1] != data:
                ctx.violation("data-not-visible-after-reopen", f"{desc}: retrieve_object({pid}) -> "
                              f"{o[1] if not is_ok(o) else seq._short(o[1])}", {"phase": "reopen"})
        if stored:
            o = common.retrieve_meta_bytes(out[1], "p1")
            if not is_ok(o) or o[1] != b"<meta/>":
                ctx.violation("metadata-not-visible-after-reopen", f"{desc}", {"phase": "reopen"})
        if expect_ok and ks == "exact":
            # "pinned": what was accepted once is accepted again, by a fresh process too, and still nothing is written
            common.cold_module()
            again = call(common.hs().FileHashStore, _props(root, reopen, case["enc_r"]))
            s2 = common.snapshot(parent)
            if not is_ok(again):
                ctx.violation("equal-config-refused", f"{desc} (yaml variant {yaml_variant}): accepted once, then the same "
                              f"configuration raised {again[1]}: {again[2][:200]}", {"phase": "second-reopen"})
            if s1 != s2:
                ctx.violation("open-modified-files", f"{desc}: second reopen changed the directory: {common.snap_diff(s1, s2)}",
                              {"phase": "second-reopen", "outcome": "ok"})
    differing = [k for k in KEYS if reopen[k] != create[k]]
    enc_only = not differing and (case["enc_c"] != case["enc_r"])
    ctx.classify("reopen-" + ("accepted" if is_ok(out) else "refused"))
    if len(differing) == 1 or enc_only or ks != "exact" or case["yaml_removed"]:
        ctx.nontrivial([differing, case["enc_c"], case["enc_r"], ks, case["path_state"], case["populated"],
                        case["yaml_removed"], bool(case.get("previous_life"))])
        ctx.sample({"create": create, "reopen": {k: props.get(k, "<missing>") for k in KEYS}, "keyset": ks,
                    "yaml_removed": case["yaml_removed"], "populated": case["populated"],
                    "outcome": "accepted" if is_ok(out) else out[1]})
