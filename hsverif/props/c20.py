"""C20 - the command-line client is a faithful front end to the API."""
import contextlib
import io
import logging
import os
import shutil
import sys

import yaml
from hypothesis import strategies as st

from .. import common, gen, ops, seq
from ..common import call, is_ok

ID = "C20"
LEVEL = "exploration"
RULE = ("Hypothesis draws a prior store state (history of 0-5 API calls), a client verb (create, "
        "storeobject, retrieveobject, deleteobject, storemetadata, retrievemetadata, deletemetadata, "
        "getchecksum) and a SUBSET of its options (-algo, -checksum, -checksum_algo, -obj_size, "
        "-formatid; for create -dp -wp -ap -nsp against an absent, matching or mismatching existing "
        "store) with valid and invalid values. hashstoreclient.main() runs in-process (argv swapped, "
        "stdout captured) on one copy of the store, the corresponding API call with the same values in "
        "the types the API requires on another copy. Oracle: both succeed or both fail; stdout carries "
        "the API's cid / size / every digest / hex digest / document path relative to the root / "
        "first 1000 bytes of content; alpha(client copy) == alpha(API copy) (python_client.log "
        "ignored); a store created by the client opens through the API with the same properties and "
        "vice versa. Non-trivial = >=1 option beyond -pid / -path, a -path value that is not the plain name of the file (trailing separator, dot segments, a directory, no such file), or create against an existing store; "
        "distinct key = (verb, option subset, value classes, prior-state shape, outcome)."
        ' create also runs against a directory that holds store data but no hashstore.yaml (refused by both, data intact) and against a populated store with the same configuration.')
ASSUMPTIONS = ["-deletemetadata without -formatid corresponds to deleting the default-namespace document "
               "(what the client substitutes)", "-obj_size values are integer literals (others cannot be "
               "given 'in the type the API requires')", "object / document contents are UTF-8 text"]
# (the third pid and one format id contain percent escapes, '+', '=' and '&' as identifiers pasted from a REST url do: options reach the
#  API unedited - neither decoded nor re-encoded)
PIDS = ["doi:10.1/cli", "pid2", "https://ex.org/v2/object?id=F1%2FQN64&v=2+x%25"]


def examples(tier):
    return 900 if tier == "quick" else 40000


@st.composite
def _case(draw, tier):
    cfg = draw(gen.store_cfgs(vary_layout=True))
    cfg["ns"] = draw(st.sampled_from([common.DEFAULT_NS, "http://ns.example/v9"]))
    op = ops.weighted((4, ops.store_op(PIDS, 2, allow_none=False, validation=False)),
                      (2, ops.smeta_op(PIDS, [None, "fmt:x"], 2)), (1, ops.delete_op(PIDS)))
    verb = draw(st.sampled_from(["create", "storeobject", "storeobject", "storeobject", "retrieveobject",
                                 "deleteobject", "storemetadata", "retrievemetadata", "deletemetadata", "getchecksum"]))
    c = {"cfg": cfg, "contents": [{"hex": "68656c6c6f20776f726c640d0a" * 3}, {"hex": ("c3a9" + "61" * 30) * 50}],
         "docs": [{"hex": "3c6d2f3e0d0a3c2f6d3e"}, {"hex": ("3c78" + "c3a9" + "2f3e") * 300}],
         "ops": draw(st.one_of(ops.history(op, 0, 5), st.builds(list))), "verb": verb, "pid": draw(st.sampled_from(PIDS + ["unknown"])),
         "c": draw(st.integers(0, 1)), "creation_died": draw(st.sampled_from([0] * 8 + [1, 2, 3])),
         # how the -path value is spelled: the same string goes to the API ("options reach the API with the types it requires",
         # unedited): a trailing separator or "/." behind a regular file, no such file, a directory, "./" segments inside
         "path_form": draw(st.sampled_from(["plain"] * 6 + ["trailing-slash", "trailing-slash-dot", "missing", "directory",
                                                            "dot-segments", "double-slash"]))}
    if verb == "storeobject":
        c["opts"] = draw(st.sets(st.sampled_from(["algo", "checksum", "checksum_algo", "obj_size"])).map(sorted))
        c["algo"] = draw(st.one_of(gen.algo_spelling(), st.sampled_from(["sm3", "sha"])))
        c["cks_algo"] = draw(st.one_of(gen.algo_spelling(), gen.algo_spelling(), st.sampled_from(["md4"])))
        c["cks"] = draw(st.sampled_from(["right", "right", "upper", "wrong"]))
        c["size"] = draw(st.sampled_from(["right", "right", "wrong", "0", "-1"]))
    elif verb in ("storemetadata", "retrievemetadata", "deletemetadata"):
        c["opts"] = draw(st.sets(st.sampled_from(["formatid"])).map(sorted))
        c["fmt"] = draw(st.sampled_from(["fmt:x", "fmt:y", common.DEFAULT_NS, "http://ns.example/fmt%2Fv1.1+xml"]))
    elif verb == "getchecksum":
        c["opts"] = ["algo"]
        c["algo"] = draw(st.one_of(gen.algo_spelling(), gen.algo_spelling(), st.sampled_from(["sm3"])))
    elif verb == "create":
        c["existing"] = draw(st.sampled_from(["absent", "absent", "same", "different", "data-no-yaml", "populated-same"]))
        c["new"] = {"depth": draw(st.integers(1, 4)), "width": draw(st.integers(1, 3)),
                    "algo": draw(st.one_of(st.sampled_from(sorted(common.STORE_ALGOS)), st.sampled_from(["sha256", "SHA-224"]))),
                    "ns": draw(st.sampled_from([common.DEFAULT_NS, "http://ns.example/v9"]))}
        # the creating invocation may carry a verb, too - with per-call options whose names resemble the creation options
        c["extra_verb"] = draw(st.sampled_from([False, "storeobject", "storeobject+algo", "storemetadata+formatid"]))
        c["extra_algo"] = draw(st.sampled_from(["sha224", "md5", "blake2s", "SHA-512"]))
    else:
        c["opts"] = []
    return c


def strategy(tier):
    return _case(tier)


def _spell(path, form, ctx):
    if form in (None, "plain"):
        return path
    ctx.classify("path-form=" + form)
    d, b = os.path.split(path)
    return {"trailing-slash": path + "/", "trailing-slash-dot": path + "/.", "missing": path + ".no-such-file", "directory": d,
            "dot-segments": os.path.join(d, ".", b), "double-slash": d + "//" + b}[form]


def run_client(argv):
    """hashstoreclient.main() in-process.  Returns (outcome, stdout)."""
    import hashstore.hashstoreclient as hc
    old_argv = sys.argv
    buf = io.StringIO()
    root_logger = logging.getLogger()
    handlers_before = list(root_logger.handlers)
    mp_env = os.environ.get("USE_MULTIPROCESSING")
    umask = os.umask(0o022)      # (client and API run under the same, ordinary file-mode creation mask)
    os.umask(umask)
    try:
        sys.argv = ["hashstore"] + argv
        with contextlib.redirect_stdout(buf), contextlib.redirect_stderr(io.StringIO()):
            out = call(hc.main)
    finally:
        sys.argv = old_argv
        for h in list(root_logger.handlers):
            if h not in handlers_before:
                root_logger.removeHandler(h)
                try:
                    h.close()
                except Exception:
                    pass
        if mp_env is None:
            os.environ.pop("USE_MULTIPROCESSING", None)
        os.umask(umask)          # (whatever the client did to the process: the harness goes on as before)
    return out, buf.getvalue()


def _modes(root):
    """Permission bits of every directory and file of a store (the client's own log aside)."""
    m = {}
    for dp, dn, fn in os.walk(root):
        for n in dn + fn:
            if n != "python_client.log":
                p = os.path.join(dp, n)
                m[os.path.relpath(p, root)] = oct(os.lstat(p).st_mode & 0o7777)
    return m


def _modes_problem(rootC, rootA):
    mC, mA = _modes(rootC), _modes(rootA)
    bad = sorted(k for k in mC if k in mA and mC[k] != mA[k])
    if bad:
        return (f"{len(bad)} entries have other permission bits in the client's store than in the API's, e.g. "
                f"{[(k[:40], mC[k], mA[k]) for k in bad[:3]]}")
    return None


def _oc(o):
    return "ok" if is_ok(o) else o[1]


def run_case(case, ctx):
    run = seq.Run(case, ctx)
    for op in case["ops"]:
        run.step(op)
    cfg = run.cfg
    verb, pid = case["verb"], case["pid"]
    rootC = run.root                      # client copy
    # staging files of ANOTHER process that is in the middle of a store (objects/tmp, metadata/tmp, refs/tmp): neither
    # the API call nor the client verb may touch them (the state comparison below includes such residue)
    if verb != "create" and case.get("inflight", True):
        for sub, body in (("objects", b"half of somebody else's object"), ("metadata", b"<somebody-else/>"), ("refs", b"0" * 64)):
            d = os.path.join(rootC, sub, "tmp")
            if os.path.isdir(d):
                common.write_file(os.path.join(d, "tmpinflight0"), body)
    if verb != "create" and case.get("creation_died") and not case["ops"]:
        # the process that created the store died right after it had written hashstore.yaml (which comes first): the data
        # directories, or some of them, are not there yet.  Whatever the API makes of such a store, the client does the same
        for sub in (("objects", "metadata", "refs"), ("refs",), ("metadata", "refs"))[case["creation_died"] % 3]:
            shutil.rmtree(os.path.join(rootC, sub), ignore_errors=True)
        ctx.classify("store-whose-creation-died-after-hashstore.yaml")
    rootA = os.path.join(run.work, "api")  # API copy
    shutil.copytree(rootC, rootA)
    desc = {"verb": verb, "pid": pid, "opts": case.get("opts"), "prior": [o["op"] + ":" + str(o.get("pid")) for o in case["ops"]]}
    if verb == "create":
        _create(case, ctx, run, desc)
        return
    api = common.make_store(rootA, cfg)
    opts = case.get("opts", [])
    argv = [rootC, f"-{verb}", f"-pid={pid}"]
    stdout_checks = []
    if verb == "storeobject":
        data = run.contents[case["c"]]
        path = run.cpaths[case["c"]]
        if case.get("dollar_path", case["c"] == 1):
            # a file whose NAME contains "$HSVSITE" and "~" literally, while the environment defines HSVSITE and a twin with
            # the expanded name (other bytes) exists next to it: options reach the API as given, nobody expands them
            os.environ["HSVSITE"] = "alpha"
            path = common.write_file(os.path.join(run.src, "~samples_$HSVSITE.csv"), data)
            common.write_file(os.path.join(run.src, "~samples_alpha.csv"), b"the expanded twin - other bytes")
            ctx.classify("path-with-dollar-and-tilde")
        path = _spell(path, case.get("path_form"), ctx)
        argv.append(f"-path={path}")
        import hashlib
        algo = cks = cks_algo = size = None
        if "algo" in opts:
            algo = case["algo"]
            argv.append(f"-algo={algo}")
        if "checksum_algo" in opts:
            cks_algo = case["cks_algo"]
            argv.append(f"-checksum_algo={cks_algo}")
        if "checksum" in opts:
            # the digest is taken under the checksum algorithm if that option is given, else under
            # -algo if given (so that a client wrongly pairing them would be "right")
            ca = (gen.canon(case["cks_algo"]) if "checksum_algo" in opts else
                  gen.canon(case["algo"]) if "algo" in opts else None) or "sha256"
            true = hashlib.new(ca, data).hexdigest()
            cks = {"right": true, "upper": true.upper(), "wrong": gen.flip_nibble(true, 5)}[case["cks"]]
            argv.append(f"-checksum={cks}")
        if "obj_size" in opts:
            size = {"right": len(data), "wrong": len(data) + 3, "0": 0, "-1": -1}[case["size"]]
            argv.append(f"-obj_size={size}")
        outA = call(api.store_object, pid, path, algo, cks, cks_algo, size)
        if is_ok(outA):
            om = outA[1]
            stdout_checks = [om.cid, str(om.obj_size)] + [f"'{k}': '{v}'" for k, v in om.hex_digests.items()]
        desc.update(algo=algo, cks=case["cks"] if cks else None, cks_algo=cks_algo, size=size)
    elif verb == "retrieveobject":
        outA = common.retrieve_bytes(api, pid)
        if is_ok(outA):
            stdout_checks = [outA[1][:1000].decode("utf-8", "replace")]
    elif verb == "deleteobject":
        outA = call(api.delete_object, pid)
    elif verb == "getchecksum":
        argv.append(f"-algo={case['algo']}")
        outA = call(api.get_hex_digest, pid, case["algo"])
        if is_ok(outA):
            stdout_checks = [outA[1]]
    else:
        fmt = case["fmt"] if "formatid" in opts else None
        if fmt is not None:
            argv.append(f"-formatid={fmt}")
        eff = cfg.ns if fmt is None else fmt
        if verb == "storemetadata":
            mpath = _spell(run.dpaths[case["c"]], case.get("path_form"), ctx)
            argv.append(f"-path={mpath}")
            outA = call(api.store_metadata, pid, mpath, eff)
            if is_ok(outA):
                stdout_checks = [os.path.relpath(str(outA[1]), rootA)]
        elif verb == "retrievemetadata":
            outA = common.retrieve_meta_bytes(api, pid, eff)
            if is_ok(outA):
                stdout_checks = [outA[1][:1000].decode("utf-8", "replace")]
        else:
            outA = call(api.delete_metadata, pid, eff)
        desc.update(fmt=fmt)
    outC, stdout = run_client(argv)
    if _oc(outA) != _oc(outC):
        ctx.violation("client-api-outcome", f"{desc}: API -> {_oc(outA)} ({'' if is_ok(outA) else outA[2][:120]}), "
                      f"client -> {_oc(outC)} ({'' if is_ok(outC) else outC[2][:160]})",
                      {"verb": verb, "api": "ok" if is_ok(outA) else "err", "client": "ok" if is_ok(outC) else "err"})
    if is_ok(outA) and is_ok(outC):
        for s in stdout_checks:
            if s not in stdout:
                ctx.violation("client-output", f"{desc}: client stdout lacks {s[:80]!r}; stdout={stdout[:300]!r}",
                              {"verb": verb})
        if verb in ("retrieveobject", "retrievemetadata") and stdout_checks:
            # the displayed content is EXACTLY the first 1000 bytes (nothing more, nothing translated)
            s0 = stdout_checks[0]
            rest = stdout[len(s0):] if stdout.startswith(s0) else None
            if rest is None or not rest.lstrip("\n").startswith("..."):
                ctx.violation("client-output", f"{desc}: displayed content differs from the first 1000 bytes the API "
                              f"returns: expected {s0[:60]!r}... ({len(s0)} chars), stdout {stdout[:80]!r}... "
                              f"({len(stdout)} chars)", {"verb": verb})
    aC, aA = common.alpha(rootC, cfg), common.alpha(rootA, cfg)
    if common.alpha_key(aC) != common.alpha_key(aA):
        ctx.violation("client-api-state", f"{desc}: outcomes API={_oc(outA)} client={_oc(outC)}; store states differ: "
                      f"objects {seq._dd(aC['objects'], aA['objects'])} pidrefs {seq._dd(aC['pidrefs'], aA['pidrefs'])} "
                      f"metadata {len(aC['metadata'])}/{len(aA['metadata'])} residue {aC['residue'][:2]}/{aA['residue'][:2]}",
                      {"verb": verb})
    p = _modes_problem(rootC, rootA)
    if p:
        ctx.violation("client-api-state", f"{desc}: {p}", {"verb": verb, "aspect": "modes"})
    ctx.classify("verb=" + verb)
    ctx.classify("outcome=" + ("ok" if is_ok(outA) else "error"))
    pf = case.get("path_form", "plain") if verb in ("storeobject", "storemetadata") else "plain"
    if opts or pf != "plain":
        vals = [case.get("cks") if "checksum" in opts else None, case.get("size") if "obj_size" in opts else None,
                gen.canon(case.get("algo") or "") if "algo" in opts else None]
        ctx.nontrivial([verb, opts, vals, len(case["ops"]), _oc(outA), pf])
        ctx.sample({"argv": [a if not a.startswith("/") else "<store>" for a in argv][1:], "api": _oc(outA),
                    "client": _oc(outC), "stdout_head": stdout[:120]})


def _create(case, ctx, run, desc):
    work = run.work
    new = case["new"]
    rootC, rootA = os.path.join(work, "createC"), os.path.join(work, "createA")
    existing = case["existing"]
    old = {"depth": 3, "width": 2, "algo": "SHA-256", "ns": common.DEFAULT_NS}
    if existing in ("same", "populated-same"):
        old = dict(new)
        if old["algo"] not in common.STORE_ALGOS:
            old["algo"] = "SHA-256"
    if existing != "absent":
        for r in (rootC, rootA):
            s0 = common.make_store(r, common.Cfg.from_json(old))
            if existing in ("data-no-yaml", "populated-same"):
                # a store that holds data; "data-no-yaml": its configuration file has gone missing (creation must be refused
                # by API and client alike, and the data must survive the refusal)
                f0 = common.write_file(os.path.join(work, "obj0"), b"data that was here before")
                call(s0.store_object, "was/here:before", f0)
                call(s0.store_metadata, "was/here:before", f0)
                if existing == "data-no-yaml":
                    os.remove(os.path.join(r, "hashstore.yaml"))
    props = {"store_path": rootA, "store_depth": new["depth"], "store_width": new["width"],
             "store_algorithm": new["algo"], "store_metadata_namespace": new["ns"]}
    outA = call(common.hs().FileHashStore, props)
    argv = [rootC, "-chs", f"-dp={new['depth']}", f"-wp={new['width']}", f"-ap={new['algo']}", f"-nsp={new['ns']}"]
    ev = case.get("extra_verb")
    if ev:
        f = common.write_file(os.path.join(work, "obj"), b"created-then-stored")
        if ev == "storemetadata+formatid":
            argv += ["-storemetadata", "-pid=first", f"-path={f}", "-formatid=fmt:per-call"]
            if is_ok(outA):
                call(outA[1].store_metadata, "first", f, "fmt:per-call")
        elif ev == "storeobject+algo":
            argv += ["-storeobject", "-pid=first", f"-path={f}", f"-algo={case.get('extra_algo', 'sha224')}"]
            if is_ok(outA):
                call(outA[1].store_object, "first", f, case.get("extra_algo", "sha224"))
        else:
            argv += ["-storeobject", "-pid=first", f"-path={f}"]
            if is_ok(outA):
                call(outA[1].store_object, "first", f)
    outC, stdout = run_client(argv)
    d = dict(desc, existing=existing, old=old if existing != "absent" else None, new=new)
    if is_ok(outA) != is_ok(outC):
        ctx.violation("client-api-outcome", f"{d}: API -> {_oc(outA)}, client -> {_oc(outC)} "
                      f"({'' if is_ok(outC) else outC[2][:160]})", {"verb": "create"})
    sC = {k: v for k, v in common.snapshot(rootC).items() if not k.endswith("python_client.log")}
    sA = common.snapshot(rootA)
    if sorted(sC) != sorted(sA) or any(sC[k] != sA[k] for k in sC if not k.endswith("hashstore.yaml")):
        ctx.violation("client-api-state", f"{d}: directory trees differ after create: {common.snap_diff(sC, sA)}",
                      {"verb": "create"})
    p = _modes_problem(rootC, rootA)
    if p:
        ctx.violation("client-api-state", f"{d}: {p}", {"verb": "create", "aspect": "modes"})
    yC = call(lambda: yaml.safe_load(open(os.path.join(rootC, "hashstore.yaml"), encoding="utf-8")))
    yA = call(lambda: yaml.safe_load(open(os.path.join(rootA, "hashstore.yaml"), encoding="utf-8")))
    if is_ok(yC) != is_ok(yA) or (is_ok(yC) and yC[1] != yA[1]):
        ctx.violation("client-api-config", f"{d}: hashstore.yaml differs: {yC[1] if is_ok(yC) else yC[1]} vs "
                      f"{yA[1] if is_ok(yA) else yA[1]}", {"verb": "create"})
    if is_ok(outA) and is_ok(outC) and existing == "absent":
        # cross-open: the API opens the client's store with the same properties, and vice versa
        o = call(common.hs().FileHashStore, dict(props, store_path=rootC))
        if not is_ok(o):
            ctx.violation("cross-open", f"{d}: API cannot open the client-created store: {o[1]}: {o[2][:160]}", {"verb": "create"})
        o2, _ = run_client([rootA, "-getchecksum", "-pid=first", "-algo=md5"])
        if case.get("extra_verb") in (True, "storeobject", "storeobject+algo") and not is_ok(o2):
            ctx.violation("cross-open", f"{d}: client cannot use the API-created store: {o2[1]}: {o2[2][:160]}", {"verb": "create"})
    ctx.classify("verb=create")
    ctx.classify("create-existing=" + existing)
    ctx.nontrivial(["create", existing, new["algo"] in common.STORE_ALGOS, case.get("extra_verb"), _oc(outA)])
    ctx.sample({"argv": argv[1:], "existing": existing, "api": _oc(outA), "client": _oc(outC)})
