"""C19 - the two documented ways of storing an object converge."""
import hashlib
import os
import shutil

from hypothesis import strategies as st

from .. import common, gen, ops, seq
from ..common import call, is_ok

ID = "C19"
LEVEL = "exploration"
RULE = ("Hypothesis draws a start state (history of 0-6 calls over 3 pids / 2 contents: stores with and "
        "without pid, tags, deletes), a pid (bound or unbound in that state), a content (present or "
        "not) and validation arguments (none; checksum + algorithm right / UPPER-case / wrong; with "
        "size right / wrong; any of the 12 algorithms x spellings). The store directory is copied; "
        "procedure A = store_object(pid, data, checksum, algorithm, size) runs on one copy, procedure "
        "B = store_object(data); delete_if_invalid_object(meta, checksum, algorithm, size) when a "
        "checksum is given; tag_object(pid, cid) on the other, each on a fresh instance. Oracle: "
        "validation correct or absent => same success / same refusal class, same cid, size and five "
        "default digests, equal abstract state alpha(A) == alpha(B). Incorrect => both raise a "
        "mismatch error of the same kind, pid unbound (if it was) in both, every referenced object "
        "intact in both. Non-trivial = start state already holds the content or the pid, or a "
        "non-default algorithm / non-canonical spelling; distinct key = (start-state shape, pid "
        "bound?, content present?, validation form, canonical algorithm)."
        ' Validation forms include the true digest of the OTHER content of the case (often under the store algorithm, i.e. the cid of another object).'
        ' Round 9: wrong sizes are also SMALLER than the content (by one byte, or a third of it); when size and checksum are both wrong the two procedures must still report the same kind of mismatch.')
ASSUMPTIONS = ["size-only validation with a WRONG size is excluded: the stepwise route cannot express it "
               "(delete_if_invalid_object requires a checksum)"]
PIDS = ["pa", "pb", "pc"]
ALREADY = {"HashStoreRefsAlreadyExists", "PidRefsAlreadyExistsError"}


def examples(tier):
    return 1200 if tier == "quick" else 60000


@st.composite
def _case(draw, tier):
    cfg = draw(gen.store_cfgs())
    op = ops.weighted((5, ops.store_op(PIDS, 2, allow_none=True, validation=False)),
                      (2, ops.tag_op(PIDS, 2, cfg["algo"], never=False)), (2, ops.delete_op(PIDS)))
    # "other" = the digest of the OTHER content of the case (a client that mixed up the checksums of two files),
    # half of the time under the store's own algorithm - then the wrong checksum is the cid of another object
    cks = draw(st.sampled_from(["none", "right", "right", "upper", "wrong", "other"]))
    size = draw(st.sampled_from(["none", "right", "wrong", "wrong-smaller", "wrong-smaller"]))
    if cks == "none" and size.startswith("wrong"):
        size = "right"
    return {"cfg": cfg, "root_via": draw(st.sampled_from([None, None, None, None, "symlink"])),
            "contents": [draw(gen.contents(max_small=20)), draw(gen.contents(max_small=20, big=False))],
            "ops": draw(ops.history(op, 0, 6)), "pid": draw(st.sampled_from(PIDS)),
            "c": draw(st.integers(0, 1)), "cks": cks, "cks_algo": draw(gen.algo_spelling()), "size": size,
            "flip": draw(st.integers(0, 100)),
            "other_algo_is_store_algo": draw(st.booleans())}


def strategy(tier):
    return _case(tier)


def run_case(case, ctx):
    run = seq.Run(case, ctx)
    for op in case["ops"]:
        run.step(op)
    cfg = run.cfg
    data = run.contents[case["c"]]
    path = run.cpaths[case["c"]]
    pid = case["pid"]
    start = run.alpha
    pid_bound = cfg.H(pid) in start["pidrefs"]
    present = cfg.digest(data) in start["objects"]
    rootB = os.path.join(run.work, "storeB")
    shutil.copytree(run.root, rootB)
    openA, openB = run.open_path, rootB
    if case.get("root_via") == "symlink":
        openB = os.path.join(run.work, "link-to-storeB")
        os.symlink(rootB, openB)
        ctx.classify("store-opened-through-a-symbolic-link")
    sA, sB = common.make_store(openA, cfg), common.make_store(openB, cfg)
    cks = algo = None
    cks_ok = size_ok = True
    if case["cks"] != "none":
        algo = case["cks_algo"]
        if case["cks"] == "other" and case.get("other_algo_is_store_algo"):
            algo = cfg.halgo
        true = hashlib.new(gen.canon(algo), data).hexdigest()
        if case["cks"] == "other":
            cks = hashlib.new(gen.canon(algo), run.contents[1 - case["c"]]).hexdigest()
        else:
            cks = {"right": true, "upper": true.upper(), "wrong": gen.flip_nibble(true, case["flip"])}[case["cks"]]
        cks_ok = cks.lower() == true
    size = None
    if case["size"] != "none" and len(data) > 0:
        size = len(data) if case["size"] == "right" else len(data) + 1
        if case["size"] == "wrong-smaller" and len(data) > 1:
            # (expected sizes are positive) smaller than the content: by one byte, or less than the first read buffer
            size = len(data) - 1 if case["flip"] % 2 or len(data) < 4 else max(1, len(data) // 3)
        size_ok = case["size"] == "right"
    if size is not None and not size_ok and cks is None:
        return
    # procedure A
    outA = call(sA.store_object, pid, path, None, cks, algo, size)
    # procedure B
    steps = []
    o = call(sB.store_object, None, path)
    steps.append(o)
    outB = o
    if is_ok(o):
        om = o[1]
        if cks is not None:
            o2 = call(sB.delete_if_invalid_object, om, cks, algo, size)
            steps.append(o2)
            if not is_ok(o2):
                outB = o2
        if outB is o:
            o3 = call(sB.tag_object, pid, om.cid)
            steps.append(o3)
            if not is_ok(o3):
                outB = o3
    aA, aB = common.alpha(run.root, cfg), common.alpha(rootB, cfg)
    desc = (f"start={[o['op'] + ':' + str(o.get('pid')) + ':' + str(o.get('c', o.get('cid'))) for o in case['ops']]} "
            f"pid={pid}(bound={pid_bound}) content#{case['c']}(present={present}, {len(data)}B) cks={case['cks']} "
            f"algo={algo} size={case['size']}")
    valid = cks_ok and size_ok
    nameA = "ok" if is_ok(outA) else outA[1]
    nameB = "ok" if is_ok(outB) else outB[1]
    if valid:
        classA = "already" if nameA in ALREADY else nameA
        classB = "already" if nameB in ALREADY else nameB
        if classA != classB:
            ctx.violation("outcomes-differ", f"{desc}: one call -> {nameA}, stepwise -> {nameB}", {"valid": True})
        if is_ok(outA) and is_ok(outB):
            a, b = outA[1], steps[0][1]
            da = {k: a.hex_digests.get(k) for k in common.DEFAULT_DIGESTS}
            db = {k: b.hex_digests.get(k) for k in common.DEFAULT_DIGESTS}
            if (a.cid, a.obj_size, da) != (b.cid, b.obj_size, db):
                ctx.violation("reports-differ", f"{desc}: one call reported {(a.cid, a.obj_size)}, stepwise "
                              f"{(b.cid, b.obj_size)}; digests equal: {da == db}", {"valid": True})
        if common.alpha_key(aA) != common.alpha_key(aB):
            ctx.violation("states-differ", f"{desc}: outcomes {nameA}/{nameB}; abstract states differ: objects "
                          f"{seq._dd(aA['objects'], aB['objects'])} pidrefs {seq._dd(aA['pidrefs'], aB['pidrefs'])} "
                          f"cidrefs {seq._dd(aA['cidrefs'], aB['cidrefs'])} residue {aA['residue'][:3]} / {aB['residue'][:3]}",
                          {"valid": True})
    else:
        mism = {"NonMatchingChecksum", "NonMatchingObjSize"}
        for who, name in (("one call", nameA), ("stepwise", nameB)):
            if name not in mism:
                ctx.violation("invalid-not-rejected", f"{desc}: {who} -> {name}, expected a mismatch error",
                              {"valid": False, "who": who})
        # "both ways raise the same kind of mismatch error" - also when size AND checksum are wrong (which of the two is reported
        # is the implementation's choice, but the same choice both ways)
        if nameA in mism and nameB in mism and nameA != nameB:
            ctx.violation("mismatch-kinds-differ", f"{desc}: one call -> {nameA}, stepwise -> {nameB}", {"valid": False})
        for who, a in (("one call", aA), ("stepwise", aB)):
            if not pid_bound and cfg.H(pid) in a["pidrefs"]:
                ctx.violation("pid-bound-after-mismatch", f"{desc}: {who} left the pid bound", {"valid": False, "who": who})
            if a["pidrefs"] != start["pidrefs"] or a["cidrefs"] != start["cidrefs"]:
                ctx.violation("refs-changed-after-mismatch", f"{desc}: {who} changed reference files", {"valid": False, "who": who})
            for cid in start["cidrefs"]:
                if cid in start["objects"] and a["objects"].get(cid) != start["objects"][cid]:
                    ctx.violation("referenced-object-disturbed", f"{desc}: {who} removed or altered referenced "
                                  f"object {cid[:12]}", {"valid": False, "who": who})
    ctx.classify("valid" if valid else "invalid")
    ctx.classify(f"outcomeA={'already' if nameA in ALREADY else nameA}")
    ca = gen.canon(algo) if algo else None
    if present or pid_bound or (ca and (ca not in common.DEFAULT_DIGESTS or algo != ca)):
        ctx.nontrivial([len(case["ops"]), sorted(set(o["op"] for o in case["ops"])), pid_bound, present, case["cks"],
                        case["size"], ca])
        ctx.sample({"start_ops": len(case["ops"]), "pid_bound": pid_bound, "content_present": present,
                    "cks": case["cks"], "algo": algo, "size": case["size"], "one_call": nameA, "stepwise": nameB})
