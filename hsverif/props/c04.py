"""C04 - no call ever removes an object that some pid still references."""
from hypothesis import strategies as st

from .. import common, gen, ops, seq
from ..common import is_ok

ID = "C04"
LEVEL = "exploration"
RULE = ("Hypothesis draws histories (<=30 calls) over 4 pids (a suffix, an extension and a case variant of "
        "one another) and 2 contents, so sharing one object is the norm: store_object with right and "
        "deliberately wrong checksum/size, tag_object, delete_object, delete_if_invalid_object with "
        "wrong expectations on referenced and unreferenced objects, metadata calls, reopen. Binding "
        "is tracked observationally (successful store/tag whose object was present; dropped at any "
        "delete_object attempt). Oracle after EVERY call: retrieve_object of every tracked pid "
        "returns exactly its content; when delete_object(pid) returned and pid was the only line of "
        "its cid's list, the object and the list are gone. Non-trivial = a pid is deleted while "
        "another pid still shares its object, or an invalid-verdict call hits a referenced object; "
        "distinct key = the whole sequence of (op, pid, content, outcome) of a history that contains a sharing event."
        ' One case in four uses a pid pool with a canonically equivalent NFC / NFD pair. History lengths are spread over [2, 30] by construction.')
ASSUMPTIONS = ["single thread", "process-local: crashes and faults are C10/C13"]
SHRINK_BUDGET = 30.0
PIDS = ["doi:10.1/x", "10.1/x", "doi:10.1/x.2", "DOI:10.1/X"]
FORMATS = [None, "f"]


def examples(tier):
    return 3200 if tier == "quick" else 60000


# one case in four: two pids that are canonically equivalent Unicode strings (NFC / NFD) - different identifiers
PIDS_NORM = ["doi:10.1/x", "caf\u00e9:10.1/x", "cafe\u0301:10.1/x", "10.1/x"]


@st.composite
def _case(draw, tier):
    PIDS = draw(st.sampled_from([globals()["PIDS"]] * 3 + [PIDS_NORM]))
    cfg = draw(gen.store_cfgs())
    cs = [draw(gen.contents(max_small=12, big=False)), draw(gen.contents(max_small=12))]
    algo = cfg["algo"]
    # sharing must be the norm: most stores are valid and use content 0
    c_skew = st.sampled_from([0, 0, 0, 1])
    valid_store = st.fixed_dictionaries({"op": st.just("store"), "pid": st.sampled_from(PIDS), "c": c_skew,
                                         "kind": st.sampled_from(["str", "bytesio"])})
    op = ops.weighted(
        (7, valid_store),
        (3, ops.store_op(PIDS, 2, allow_none=True, validation=True)),
        (3, st.fixed_dictionaries({"op": st.just("tag"), "pid": st.sampled_from(PIDS),
                                   "cid": c_skew.map(lambda i: {"of": i})})),
        # a cid string that is a case variant of a real one is a different (object-less) cid
        (1, st.fixed_dictionaries({"op": st.just("tag"), "pid": st.sampled_from(PIDS),
                                   "cid": c_skew.map(lambda i: {"of": i, "upper": True})})),
        (7, ops.delete_op(PIDS)),
        (4, ops.dii_op(2)),
        (1, ops.smeta_op(PIDS, FORMATS, 1)),
        (1, ops.dmeta_op(PIDS, ["f"])),
        (1, ops.decoy_op(PIDS)),
        (1, ops.REOPEN))
    return {"cfg": cfg, "contents": cs, "docs": [{"hex": "6d"}],
            "ops": draw(ops.history(ops.on_instances(op), 2, 30))}


def strategy(tier):
    return _case(tier)


def enumerate_cases(tier):
    """Long reference lists: N pids sharing one object so that the list crosses the block sizes a reader may use (lines of 64
    bytes put EVERY power-of-two boundary up to the list's size exactly behind a newline; lines of 61 bytes put the boundaries
    inside lines), and single very long pids whose line ends exactly at / one before / one after a boundary."""
    cfg = {"algo": "SHA-256", "depth": 3, "width": 2}
    for line, total in ([(64, 66000)] if tier == "quick" else [(64, 66000), (61, 66000), (64, 132000), (128, 132000), (32, 33000)]):
        yield {"family": "long-list", "cfg": cfg, "contents": [{"hex": "6c6f6e67"}], "line": line, "n": total // line + 1}
    # a delete_object that FAILS (one injected I/O error at each of its fault sites): whatever it leaves, a pid that is still
    # bound afterwards must still be served its bytes.  Contents are chosen so that the cid ends in every pair of the hex
    # digits that also occur in the '_delete' marker suffix, and in other digits.
    from .. import scen
    for kind in ("delete_sole", "delete_with_meta", "delete_shared", "delete_listed_first"):
        for tail in (("de", "0") if tier == "quick" else ("de", "ed", "dd", "ee", "e", "d", "0", "f")):
            for algo in (("SHA-256",) if tier == "quick" else ("SHA-256", "MD5", "SHA-512")):
                c = {"algo": algo, "depth": 2, "width": 2}
                yield {"family": "faulted-delete", "kind": kind, "tail": tail, "cfg": c,
                       "contents": [gen.content_with_digest_tail(common.STORE_ALGOS[algo], tail), {"hex": "6f74686572"}],
                       "docs": [{"hex": "3c612f3e"}, {"hex": "3c622f3e"}], "start": scen.prerequisites(kind), "target": scen.target_op(kind)}
    for L in ((4095, 65535) if tier == "quick" else (4095, 4096, 8191, 8192, 65534, 65535, 65536, 131071)):
        for first in (True, False):
            yield {"family": "long-pid", "cfg": cfg, "contents": [{"hex": "6c6f6e67"}], "len": L, "long_first": first}


def _long_list(case, ctx):
    import os
    run = seq.Run(case, ctx)
    cfg, s, data = run.cfg, run.store, run.contents[0]
    cid = cfg.digest(data)
    obj = os.path.join(run.root, cfg.obj_rel(cid))
    lst = os.path.join(run.root, cfg.cidref_rel(cid))
    if case["family"] == "long-pid":
        long_pid = ("L" * case["len"])[:case["len"] - 4] + "/end"
        pids = [long_pid, "short:pid"] if case["long_first"] else ["short:pid", long_pid]
    else:
        w = case["line"] - 1
        pids = [f"{i:05d}/".ljust(w, "p") for i in range(case["n"])]
    what = f"{len(pids)} pids of {len(pids[0])}/{len(pids[-1])} characters sharing one object"
    out = common.call(s.store_object, pids[0], run.cpaths[0])
    if not is_ok(out):
        ctx.violation("referenced-object-lost", f"{what}: the first store_object raised {out[1]}: {out[2][:160]}", {"op": "store", "err": out[1]})
    for i, p in enumerate(pids[1:], 1):
        out = common.call(s.tag_object, p, cid) if i % 7 else common.call(s.store_object, p, run.cpaths[0])
        if not is_ok(out):
            ctx.violation("referenced-object-lost", f"{what}: binding pid #{i + 1} to the shared object raised {out[1]}: {out[2][:200]} "
                          f"(list size then: {os.path.getsize(lst) if os.path.isfile(lst) else None} bytes)", {"op": "long-list-bind", "err": out[1]})
    size = os.path.getsize(lst)

    def all_served(when, live):
        for j, p in enumerate(live):
            o = common.retrieve_bytes(s, p)
            if not is_ok(o) or o[1] != data:
                ctx.violation("referenced-object-lost", f"{what} (list of {size} bytes), {when}: retrieve_object of bound pid "
                              f"#{pids.index(p) + 1} ({p[:12]!r}..) {'raised ' + o[1] + ': ' + o[2][:160] if not is_ok(o) else 'returned other bytes'}",
                              {"op": "long-list-retrieve", "err": o[1] if not is_ok(o) else "bytes"})
    all_served("after the last binding", pids)
    # delete in an order that takes the FIRST, the LAST and boundary neighbours early; the object must stay to the very end
    order = [pids[0], pids[-1]] + pids[1:-1]
    live = list(pids)
    for n, p in enumerate(order):
        out = common.call(s.delete_object, p)
        live.remove(p)
        if not is_ok(out):
            ctx.violation("referenced-object-lost", f"{what}: delete_object of bound pid #{pids.index(p) + 1} raised {out[1]}: {out[2][:160]}",
                          {"op": "long-list-delete", "err": out[1]})
        if live and not os.path.isfile(obj):
            ctx.violation("referenced-object-lost", f"{what}: after deleting {n + 1} of them the object is gone although {len(live)} pids still reference it",
                          {"op": "long-list-delete", "err": "object-gone"})
        if n in (0, 1, 2) or len(live) in (1, 2):
            all_served(f"after deleting {n + 1} of them", live if len(live) < 40 else live[:20] + live[-20:])
    if os.path.exists(obj) or os.path.exists(lst):
        ctx.violation("object-outlives-last-reference", f"{what}: every pid deleted but object present={os.path.exists(obj)}, "
                      f"list present={os.path.exists(lst)} ({os.path.getsize(lst) if os.path.isfile(lst) else 0} bytes)", {"op": "long-list-delete"})
    a = common.alpha(run.root, cfg)
    if a["objects"] or a["cidrefs"] or a["pidrefs"]:
        ctx.violation("object-outlives-last-reference", f"{what}: every pid deleted but the store still holds objects={len(a['objects'])} "
                      f"lists={len(a['cidrefs'])} pid files={len(a['pidrefs'])}", {"op": "long-list-delete"})
    ctx.classify(case["family"])
    ctx.nontrivial([case["family"], case.get("line"), case.get("n"), case.get("len"), case.get("long_first")])
    ctx.sample({"family": case["family"], "pids": len(pids), "list_bytes": size})


def _faulted_delete(case, ctx):
    from .. import fault, scen
    sc = scen.Scenario(case, ctx)
    cfg = sc.cfg
    X = sc.contents[0]
    cid = cfg.digest(X)
    ctx.evaluations -= 1
    for inj, store, d, out in fault.faulted_runs(sc, errnos=("EIO",)):
        ctx.count()
        a = common.alpha(d, cfg)
        where = f"{case['kind']} (cid ..{cid[-4:]}) with {inj.describe()}: delete_object {'returned' if is_ok(out) else 'raised ' + out[1]}"
        for p in sc.pids():
            if sc.served0[("obj", p)][0] != "ok":
                continue
            bound_now = a["pidrefs"].get(cfg.H(p)) == cid and p in a["cidrefs"].get(cid, [])
            if not bound_now:
                continue            # (what a failed delete may leave of the pid itself is C13's business)
            o = common.retrieve_bytes(store, p)
            if not is_ok(o) or o[1] != sc.served0[("obj", p)][1]:
                ctx.violation("referenced-object-lost", f"{where}; pid {p!r} is still bound to the object (pid reference file and list entry "
                              f"present) but retrieve_object {'raised ' + o[1] if not is_ok(o) else 'returned other bytes'}; object file present="
                              f"{cid in a['objects']}, stray files: {a['residue'][:4]}", {"op": "faulted-delete", "err": o[1] if not is_ok(o) else "bytes",
                                                                                         "site": inj.fired.kind})
        ctx.classify("faulted-delete:" + ("raised" if not is_ok(out) else "returned"))
        ctx.nontrivial(["faulted-delete", case["kind"], case["tail"], case["cfg"]["algo"], inj.fired.kind, fault.path_class(d, inj.fired),
                        bool(inj.sticky), "ok" if is_ok(out) else "raised"])
    ctx.sample({"family": "faulted-delete", "kind": case["kind"], "cid_tail": cid[-4:]})


def run_case(case, ctx):
    if case.get("family") == "faulted-delete":
        return _faulted_delete(case, ctx)
    if case.get("family") in ("long-list", "long-pid"):
        return _long_list(case, ctx)
    run = seq.Run(case, ctx)
    cfg = run.cfg
    bound = {}  # pid -> content index (observational)
    events, trace = [], []
    for op in case["ops"]:
        k, pid = op["op"], op.get("pid")
        r = run.step(op)
        d = run.describe(r)
        trace.append([k, pid, op.get("c", op.get("cid")), "ok" if is_ok(r.out) else r.out[1]])
        if k == "store" and pid is not None and is_ok(r.out) and pid not in bound:
            bound[pid] = op["c"]
        elif k == "tag" and is_ok(r.out) and pid not in bound and "of" in op["cid"]:
            if run.cid_of(op["cid"]) in r.alpha["objects"]:
                bound[pid] = op["cid"]["of"]
        elif k == "delete":
            was = bound.pop(pid, None)
            if was is not None and is_ok(r.out):
                cid = cfg.digest(run.contents[was])
                sharers = [p for p, c in bound.items() if c == was]
                if sharers:
                    events.append(["delete-shared", pid, was])
                    ctx.classify("delete-while-shared")
                sole = r.before["cidrefs"].get(cid) == [pid]
                if sole and (cid in r.alpha["objects"] or cid in r.alpha["cidrefs"]):
                    ctx.violation("object-outlives-last-reference", f"{d}: pid was the only reference of "
                                  f"{cid[:12]}.. but object present={cid in r.alpha['objects']}, "
                                  f"list present={cid in r.alpha['cidrefs']}", {"op": k})
                if sole:
                    ctx.classify("last-reference-deleted")
        if not is_ok(r.out) and k in ("store", "dii") and r.out[1] in ("NonMatchingChecksum", "NonMatchingObjSize"):
            c = op["c"]
            if any(ci == c for ci in bound.values()):
                events.append([k + "-invalid-on-referenced", c])
                ctx.classify("invalid-verdict-on-referenced-object")
        # every tracked pid must still be served its exact bytes
        for p, ci in bound.items():
            o = common.retrieve_bytes(run.store, p)
            if not is_ok(o):
                ctx.violation("referenced-object-lost", f"after {d}: retrieve_object({p!r}) raised {o[1]}: "
                              f"{o[2][:160]}; history: {[c05b(x) for x in case['ops'][:r.i]]}",
                              {"op": k, "err": o[1]})
            elif o[1] != run.contents[ci]:
                ctx.violation("referenced-object-altered", f"after {d}: retrieve_object({p!r}) returned "
                              f"{seq._short(o[1])} instead of {seq._short(run.contents[ci])}", {"op": k})
    dp = run.decoy_problem()
    if dp:
        ctx.violation("file-outside-the-store-touched", f"{dp}; history: {[(o['op'], o.get('pid')) for o in case['ops']][:14]}", {"aspect": "escape"})
    if events:
        ctx.nontrivial(trace)
        ctx.sample({"ops": [c05b(o) for o in case["ops"][:14]], "sharing_events": events[:6]})


def c05b(op):
    from .c05 import _brief
    return _brief(op)
