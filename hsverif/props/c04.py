"""C04 - no call ever removes an object that some pid still references."""
from hypothesis import strategies as st

from .. import common, gen, ops, seq
from ..common import is_ok

ID = "C04"
LEVEL = "exploration"
RULE = ("Hypothesis draws histories (<=30 calls) over 4 pids (a suffix, an extension and a case variant of "
        "one another) and 2 contents, so sharing one object is the norm: store_object with right and "
        "deliberately wrong checksum/size, tag_object, delete_object, delete_if_invalid_object with "
        "wrong expectations on referenced and unreferenced objects, metadata calls, reopen. Binding "
        "is tracked observationally (successful store/tag whose object was present; dropped at any "
        "delete_object attempt). Oracle after EVERY call: retrieve_object of every tracked pid "
        "returns exactly its content; when delete_object(pid) returned and pid was the only line of "
        "its cid's list, the object and the list are gone. Non-trivial = a pid is deleted while "
        "another pid still shares its object, or an invalid-verdict call hits a referenced object; "
        "distinct key = the whole sequence of (op, pid, content, outcome) of a history that contains a sharing event."
        ' One case in four uses a pid pool with a canonically equivalent NFC / NFD pair. History lengths are spread over [2, 30] by construction.')
ASSUMPTIONS = ["single thread", "process-local: crashes and faults are C10/C13"]
SHRINK_BUDGET = 30.0
PIDS = ["doi:10.1/x", "10.1/x", "doi:10.1/x.2", "DOI:10.1/X"]
FORMATS = [None, "f"]


def examples(tier):
    return 3200 if tier == "quick" else 60000


# one case in four: two pids that are canonically equivalent Unicode strings (NFC / NFD) - different identifiers
PIDS_NORM = ["doi:10.1/x", "caf\u00e9:10.1/x", "cafe\u0301:10.1/x", "10.1/x"]


@st.composite
def _case(draw, tier):
    PIDS = draw(st.sampled_from([globals()["PIDS"]] * 3 + [PIDS_NORM]))
    cfg = draw(gen.store_cfgs())
    cs = [draw(gen.contents(max_small=12, big=False)), draw(gen.contents(max_small=12))]
    algo = cfg["algo"]
    # sharing must be the norm: most stores are valid and use content 0
    c_skew = st.sampled_from([0, 0, 0, 1])
    valid_store = st.fixed_dictionaries({"op": st.just("store"), "pid": st.sampled_from(PIDS), "c": c_skew,
                                         "kind": st.sampled_from(["str", "bytesio"])})
    op = ops.weighted(
        (7, valid_store),
        (3, ops.store_op(PIDS, 2, allow_none=True, validation=True)),
        (3, st.fixed_dictionaries({"op": st.just("tag"), "pid": st.sampled_from(PIDS),
                                   "cid": c_skew.map(lambda i: {"of": i})})),
        # a cid string that is a case variant of a real one is a different (object-less) cid
        (1, st.fixed_dictionaries({"op": st.just("tag"), "pid": st.sampled_from(PIDS),
                                   "cid": c_skew.map(lambda i: {"of": i, "upper": True})})),
        (7, ops.delete_op(PIDS)),
        (4, ops.dii_op(2)),
        (1, ops.smeta_op(PIDS, FORMATS, 1)),
        (1, ops.dmeta_op(PIDS, ["f"])),
        (1, ops.decoy_op(PIDS)),
        (1, ops.REOPEN))
    return {"cfg": cfg, "contents": cs, "docs": [{"hex": "6d"}],
            "ops": draw(ops.history(ops.on_instances(op), 2, 30))}


def strategy(tier):
    return _case(tier)


def run_case(case, ctx):
    run = seq.Run(case, ctx)
    cfg = run.cfg
    bound = {}  # pid -> content index (observational)
    events, trace = [], []
    for op in case["ops"]:
        k, pid = op["op"], op.get("pid")
        r = run.step(op)
        d = run.describe(r)
        trace.append([k, pid, op.get("c", op.get("cid")), "ok" if is_ok(r.out) else r.out[1]])
        if k == "store" and pid is not None and is_ok(r.out) and pid not in bound:
            bound[pid] = op["c"]
        elif k == "tag" and is_ok(r.out) and pid not in bound and "of" in op["cid"]:
            if run.cid_of(op["cid"]) in r.alpha["objects"]:
                bound[pid] = op["cid"]["of"]
        elif k == "delete":
            was = bound.pop(pid, None)
            if was is not None and is_ok(r.out):
                cid = cfg.digest(run.contents[was])
                sharers = [p for p, c in bound.items() if c == was]
                if sharers:
                    events.append(["delete-shared", pid, was])
                    ctx.classify("delete-while-shared")
                sole = r.before["cidrefs"].get(cid) == [pid]
                if sole and (cid in r.alpha["objects"] or cid in r.alpha["cidrefs"]):
                    ctx.violation("object-outlives-last-reference", f"{d}: pid was the only reference of "
                                  f"{cid[:12]}.. but object present={cid in r.alpha['objects']}, "
                                  f"list present={cid in r.alpha['cidrefs']}", {"op": k})
                if sole:
                    ctx.classify("last-reference-deleted")
        if not is_ok(r.out) and k in ("store", "dii") and r.out[1] in ("NonMatchingChecksum", "NonMatchingObjSize"):
            c = op["c"]
            if any(ci == c for ci in bound.values()):
                events.append([k + "-invalid-on-referenced", c])
                ctx.classify("invalid-verdict-on-referenced-object")
        # every tracked pid must still be served its exact bytes
        for p, ci in bound.items():
            o = common.retrieve_bytes(run.store, p)
            if not is_ok(o):
                ctx.violation("referenced-object-lost", f"after {d}: retrieve_object({p!r}) raised {o[1]}: "
                              f"{o[2][:160]}; history: {[c05b(x) for x in case['ops'][:r.i]]}",
                              {"op": k, "err": o[1]})
            elif o[1] != run.contents[ci]:
                ctx.violation("referenced-object-altered", f"after {d}: retrieve_object({p!r}) returned "
                              f"{seq._short(o[1])} instead of {seq._short(run.contents[ci])}", {"op": k})
    dp = run.decoy_problem()
    if dp:
        ctx.violation("file-outside-the-store-touched", f"{dp}; history: {[(o['op'], o.get('pid')) for o in case['ops']][:14]}", {"aspect": "escape"})
    if events:
        ctx.nontrivial(trace)
        ctx.sample({"ops": [c05b(o) for o in case["ops"][:14]], "sharing_events": events[:6]})


def c05b(op):
    from .c05 import _brief
    return _brief(op)
