"""C06 - the validation verdict is exactly 'size and checksum match the content'."""
from hypothesis import strategies as st

from .. import common, gen, ops, seq
from ..common import is_ok

ID = "C06"
LEVEL = "exploration"
RULE = ("Hypothesis draws (store algorithm, content, checksum algorithm from all 12 x spelling "
        "grammar, checksum form in {absent, true lower, TRUE UPPER, MiXeD, one nibble flipped, "
        "truncated}, size form in {absent, true, true-1, true+1, true+7}, prior state of the same "
        "content in {absent, present unreferenced, present referenced by another pid}, entry point "
        "in {store_object(pid, ...), store_object(None) + delete_if_invalid_object}). Oracle: "
        "verdict valid <=> (size absent or == len) and (checksum absent or lower(checksum) == "
        "true digest); invalid => documented mismatch class, pid unbound, objects/tmp empty, object "
        "set changes only as stated (store adds nothing; dii removes the object iff no reference "
        "list names it); valid => normal return, nothing removed. Non-trivial = non-default "
        "checksum algorithm, or non-lower-case checksum, or content already present; distinct key = "
        "(entry, prior, canonical algorithm, spelling shape, checksum form, size form, size class)."
        ' Further checksum forms: a look-alike (one hex digit replaced by a Cyrillic / full-width twin) and the true digest of ANOTHER object that is in the store (often under the store algorithm, i.e. its cid).')
ASSUMPTIONS = ["the ObjectMetadata given to delete_if_invalid_object is the one store_object returned",
               "expected sizes are positive integers (non-positive / non-integer sizes belong to C17)"]
PID, OTHER = "doi:10.5063%2FF1%s%d/under-test%", "pid:other"    # (percent signs: identifiers are data, never format strings)


def examples(tier):
    return 2400 if tier == "quick" else 150000


@st.composite
def _case(draw, tier):
    cfg = draw(gen.store_cfgs())
    content = draw(gen.contents(max_small=40))
    entry = draw(st.sampled_from(["store", "store", "dii"]))
    cks = draw(st.sampled_from(["right", "upper", "mixed", "wrong", "short", "lookalike", "other"] + (["none"] if entry == "store" else [])))
    size = draw(st.sampled_from(["none", "right", "right", "wrong"]))
    if cks == "none" and size == "none":
        size = "wrong"
    # cks == "other": the checksum is the true digest of ANOTHER object that is in the store (often under the store's own
    # algorithm, i.e. it is that object's cid)
    other = draw(gen.contents(max_small=24, big=False))
    return {"cfg": cfg, "root_via": draw(st.sampled_from([None, None, None, None, None, "symlink"])), "contents": [content, other], "entry": entry, "other_prior": draw(st.sampled_from(["unref", "ref", "absent"])),
            "other_algo_is_store_algo": draw(st.booleans()),
            "prior": draw(st.sampled_from(["absent", "unref", "ref"])),
            "cks": cks, "cks_algo": draw(gen.algo_spelling()), "size": size,
            "dsize": draw(st.sampled_from([-1, 1, 7, "blk8192", "blk4096", "blk65536"])), "flip": draw(st.integers(0, 200)),
            "kind": draw(st.sampled_from(["str", "path", "file", "bytesio", "gzip", "rwfile", "relpath"])),
            # a stream handed over at a non-zero position: the WHOLE content is stored, the size to expect is the whole size
            "offset": draw(st.sampled_from([0, 0, 1, 5, 10 ** 6])),
            # delete_if_invalid_object only: an earlier VALID call on the same ObjectMetadata (the verdict must
            # not depend on it)
            "dii_first": draw(st.sampled_from(["none", "none", "right", "upper"])),
            # additional_algorithm (store_object only): absent, the same spelling as the checksum algorithm,
            # the store algorithm's hashlib name, or any other
            "add": draw(st.sampled_from(["none", "none", "same-as-cks", "store-algo", "other"])),
            "add_other": draw(gen.algo_spelling())}


def strategy(tier):
    return _case(tier)


def enumerate_cases(tier):
    # a long run of INVALID verdicts on one instance, then a valid request: every verdict depends on its own call only
    for n in ((70,) if tier == "quick" else (70, 300)):
        yield {"family": "many-rejections", "n": n, "cfg": {"algo": "SHA-256", "depth": 3, "width": 2},
               "contents": [{"hex": "6f6e65"}, {"hex": "74776f"}]}


def _many_rejections(case, ctx):
    run = seq.Run(case, ctx)
    for i in range(case["n"]):
        wrong_cks = bool(i % 3)
        r = run.step({"op": "store", "pid": f"rejected/{i}", "c": i % 2, "cks": "wrong" if wrong_cks else "none", "cks_algo": "sha256",
                      "size": "none" if wrong_cks else "wrong", "dsize": 1, "flip": i})
        want = "NonMatchingChecksum" if wrong_cks else "NonMatchingObjSize"
        if is_ok(r.out) or r.out[1] != want:
            ctx.violation("wrong-verdict", f"invalid request #{i + 1} in a row: outcome {'ok' if is_ok(r.out) else r.out[1] + ': ' + r.out[2][:120]}, "
                          f"expected {want}", {"entry": "store", "valid": False, "cks": "run"})
        p = run.residue_problem(r, ["objects/tmp"])
        if p:
            ctx.violation("tmp-left", f"invalid request #{i + 1} in a row: {p}", {"entry": "store", "valid": False})
    r = run.step({"op": "store", "pid": "valid/after", "c": 0, "cks": "right", "cks_algo": "sha256", "size": "right"})
    if not is_ok(r.out):
        ctx.violation("wrong-verdict", f"a valid request after {case['n']} rejected ones raised {r.out[1]}: {r.out[2][:160]}",
                      {"entry": "store", "valid": True, "cks": "run"})
    ctx.classify("many-rejections")
    ctx.nontrivial(["many-rejections", case["n"]])


def run_case(case, ctx):
    if case.get("family") == "many-rejections":
        return _many_rejections(case, ctx)
    run = seq.Run(case, ctx)
    entry, prior = case["entry"], case["prior"]
    if prior == "unref":
        run.step({"op": "store", "pid": None, "c": 0})
    elif prior == "ref":
        run.step({"op": "store", "pid": OTHER, "c": 0})
    common_args = {"c": 0, "cks": case["cks"], "cks_algo": case["cks_algo"], "size": case["size"],
                   "dsize": case["dsize"], "flip": case["flip"]}
    if case["cks"] == "other" and len(run.contents) > 1:
        if run.contents[1] != run.contents[0] and case.get("other_prior") != "absent":
            run.step({"op": "store", "pid": None if case.get("other_prior") == "unref" else "the/other:object", "c": 1})
        if case.get("other_algo_is_store_algo"):
            common_args["cks_algo"] = run.cfg.halgo
    if entry == "store":
        add = {"none": None, "same-as-cks": case["cks_algo"], "store-algo": run.cfg.halgo,
               "other": case.get("add_other")}[case.get("add", "none")]
        if case.get("add") == "store-algo" and case["cks"] != "none":
            common_args["cks_algo"] = run.cfg.halgo      # checksum algorithm == additional == store algorithm
        r = run.step(dict({"op": "store", "pid": PID, "kind": case["kind"], "add": add, "offset": case.get("offset", 0)}, **common_args))
    else:
        r0 = run.step({"op": "store", "pid": None, "c": 0, "kind": case["kind"]})
        if not is_ok(r0.out):
            return  # storing without a pid failed: C01's business
        if case.get("dii_first", "none") != "none":
            rp = run.step({"op": "dii", "c": 0, "cks": case["dii_first"], "cks_algo": case["cks_algo"], "size": "right"})
            if not is_ok(rp.out):
                ctx.violation("wrong-verdict", f"preliminary delete_if_invalid_object with a correct {case['dii_first']}-case "
                              f"checksum ({case['cks_algo']}) raised {rp.out[1]}", {"entry": "dii", "valid": True, "cks": case["dii_first"]})
        r = run.step(dict({"op": "dii"}, **common_args))
    valid = "ok" in r.exp
    what = f"{entry} prior={prior} cks={case['cks']} algo={common_args['cks_algo']} add={case.get('add')} size={case['size']} " \
           f"len={len(run.contents[0])}"
    p = run.outcome_problem(r, check_value=False)
    if p:
        ctx.violation("wrong-verdict", f"{what}: {p} (expected verdict: {'valid' if valid else 'invalid'})",
                      {"entry": entry, "valid": valid, "cks": case["cks"]})
    p = run.objects_problem(r)
    if p:
        ctx.violation("object-set", f"{what}: after a{'' if valid else 'n in'}valid verdict {p}",
                      {"entry": entry, "valid": valid})
    p = run.refs_problem(r)
    if p:
        ctx.violation("binding", f"{what}: {p}", {"entry": entry, "valid": valid})
    p = run.residue_problem(r, ["objects/tmp"])
    if p:
        ctx.violation("tmp-left", f"{what}: {p}", {"entry": entry, "valid": valid})
    ca = gen.canon(case["cks_algo"]) if case["cks"] != "none" else None
    nondefault = ca is not None and ca not in common.DEFAULT_DIGESTS
    ctx.classify("verdict=" + ("valid" if valid else "invalid"))
    ctx.classify("entry=" + entry)
    ctx.classify("prior=" + prior)
    if nondefault or case["cks"] in ("upper", "mixed") or prior != "absent":
        shape = ("U" if case["cks_algo"].isupper() else "l" if case["cks_algo"].islower() else "T") + \
                ("-" if "-" in case["cks_algo"] else "_" if "_" in case["cks_algo"] else "")
        ctx.nontrivial([entry, prior, ca, shape, case["cks"], case["size"], gen.size_class(len(run.contents[0]))])
        ctx.sample({k: case[k] for k in ("entry", "prior", "cks", "cks_algo", "size", "kind")}
                   | {"len": len(run.contents[0]), "algo": case["cfg"]["algo"], "verdict": "valid" if valid else "invalid"})
