"""C13 - I/O failures surface as errors and leave no half-bound pid."""
import itertools
import os

from .. import common, fault, fsi, gen, scen, seq
from ..common import call, is_ok

ID = "C13"
LEVEL = "fault_enumeration"
RULE = ("Hypothesis draws a scenario (store algorithm, content size, generated start state with bystander pids "
        "that share the target's object / own metadata, one call from {store_object new / duplicate / additional "
        "pid / in-memory stream / re-bind, tag_object onto unreferenced / shared / object-less cid / re-bind, "
        "delete_object sole / shared / with metadata, store_metadata new / overwrite, delete_metadata one / all}). "
        "For EVERY fault site of the call (each mutating operation - create, write, flush, close, rename, remove, "
        "mkdir, chmod, truncate, flock - and each open for reading; stat-class probes are not sites) an OSError "
        "(EIO in the quick tier; EIO, ENOSPC, EACCES in the thorough tier) is injected, once as a one-off failure "
        "of that operation and once persisting for that destination path until the call returns. Oracle: (1) "
        "normal return => objects, references, metadata and every retrieve equal those of the fault-free run; (2) "
        "failed store_object / tag_object => the earlier binding is intact, or the pid is unbound and the same call "
        "retried without the fault succeeds and serves the data; (3) failed store_metadata => previous version / "
        "absence intact; (4) always every other pid's object, references and metadata untouched. evaluations = "
        "faulted executions. Non-trivial = fault after the call's first mutation; distinct key = (call kind, "
        "boundary kind, path class, mode, errno, outcome class).")
EXHAUSTIVE_NOTE = "within each scenario every fault site x mode (x errno) of the call is injected"
ASSUMPTIONS = ["faults are OSErrors raised at the Python/OS boundary before the operation takes effect",
               "temp-file residue after an I/O failure is not judged (the property does not claim it)"]
SHRINK_BUDGET = 60.0


def examples(tier):
    return 240 if tier == "quick" else 2400


def strategy(tier):
    return scen.scenarios()


def _core(a):
    return {"o": a["objects"], "p": a["pidrefs"], "c": {k: sorted(v) for k, v in a["cidrefs"].items()},
            "m": a["metadata"]}


def run_case(case, ctx):
    fsi.install()
    sc = scen.Scenario(case, ctx)
    cfg = sc.cfg
    tgt = case["target"]
    X = sc.contents[0]
    # fault-free reference run
    d0 = sc.fresh_copy()
    s0 = common.make_store(d0, cfg)
    out0 = sc.call_target(s0)
    ref_alpha = _core(common.alpha(d0, cfg))
    ref_served = sc.observe(s0)
    sc.discard(d0)
    bound0 = sc.served0[("obj", scen.T)]
    errnos = ("EIO",) if ctx.tier == "quick" else ("EIO", "ENOSPC", "EACCES")
    ctx.evaluations -= 1
    runs = itertools.chain(fault.faulted_runs(sc, errnos=errnos), fault.faulted_runs(sc, modes=("full",), errnos=("ENOSPC",)))
    for inj, store, d, out in runs:
        ctx.count()
        ev = inj.fired
        where = f"{case['kind']} with {inj.describe()}"
        pc = fault.path_class(d, ev)
        mode = "disk-full" if inj.sticky == "full" else "sticky" if inj.sticky else "one-off"
        sig = {"call": case["kind"], "op": tgt["op"], "path_class": pc, "mode": mode, "site": ev.kind}
        a = common.alpha(d, cfg)
        oc = "ok" if is_ok(out) else out[1]
        if is_ok(out) and is_ok(out0):
            if _core(a) != ref_alpha:
                diff = {k: seq._dd(_core(a)[k], ref_alpha[k]) for k in "opcm" if _core(a)[k] != ref_alpha[k]}
                ctx.violation("success-without-effect", f"{where}: the call returned normally but the store differs "
                              f"from the fault-free run: {diff}; scenario {sc.summary()}", sig)
            served = sc.observe(store)
            if served != ref_served:
                bad = [k for k in served if served[k] != ref_served[k]]
                ctx.violation("success-without-effect", f"{where}: the call returned normally but {bad[:3]} differ "
                              f"from the fault-free run; scenario {sc.summary()}", sig)
        elif is_ok(out) and not is_ok(out0):
            ctx.violation("fault-turned-rejection-into-success", f"{where}: fault-free call raises {out0[1]} but the "
                          f"faulted call returned normally; scenario {sc.summary()}", sig)
        elif not is_ok(out):
            if tgt["op"] in ("store", "tag"):
                o = common.retrieve_bytes(store, scen.T)
                if bound0[0] == "ok":
                    if not is_ok(o) or o[1] != bound0[1]:
                        ctx.violation("earlier-binding-lost", f"{where}: the call raised {oc} and the pid's earlier "
                                      f"binding now yields {o[1] if not is_ok(o) else seq._short(o[1])}; scenario "
                                      f"{sc.summary()}", dict(sig, failure="earlier-binding-lost"))
                elif is_ok(out0):
                    retry = sc.call_target(store)
                    o2 = common.retrieve_bytes(store, scen.T)
                    want = sc.contents[tgt["c"]] if tgt["op"] == "store" else sc.contents[tgt["cid"]["of"]]
                    if not is_ok(retry):
                        ctx.violation("retry-rejected", f"{where}: the call raised {oc}; the same call retried "
                                      f"without the fault raised {retry[1]}: {retry[2][:160]}; pid state before the "
                                      f"retry: {'served' if is_ok(o) else o[1]}; scenario {sc.summary()}",
                                      dict(sig, failure="retry-rejected", retry_err=retry[1]))
                    elif case["kind"] != "tag_first_noobj" and (not is_ok(o2) or o2[1] != want):
                        ctx.violation("retry-not-retrievable", f"{where}: retry succeeded but the pid yields "
                                      f"{o2[1] if not is_ok(o2) else seq._short(o2[1])}; scenario {sc.summary()}",
                                      dict(sig, failure="retry-not-retrievable"))
            elif tgt["op"] == "smeta":
                key = ("meta", scen.T, tgt.get("fmt"))
                o = common.retrieve_meta_bytes(store, scen.T, tgt.get("fmt"))
                now = ("ok", o[1]) if is_ok(o) else ("err", o[1])
                if now != sc.served0[key]:
                    ctx.violation("previous-metadata-lost", f"{where}: store_metadata raised {oc}; the document was "
                                  f"{scen._s(sc.served0[key])} and is now {scen._s(now)}; scenario {sc.summary()}",
                                  dict(sig, failure="previous-metadata-lost"))
        p = sc.bystander_problem(store, common.alpha(d, cfg), where + f" (outcome {oc})")
        if p:
            ctx.violation("fault-harmed-bystander", f"{p[1]}; scenario {sc.summary()}", dict(sig, failure="bystander", harm=p[0]))
        ctx.classify("outcome=" + ("ok" if is_ok(out) else "raised"))
        ctx.classify("mode=" + mode)
        ctx.classify("site=" + ev.kind)
        if inj.k >= 1:
            ctx.nontrivial([case["kind"], ev.kind, pc, mode, inj.errno_name, "ok" if is_ok(out) else "raised"])
            if inj.k in (2, 9, 17) and inj.sticky:
                ctx.sample({"scenario": sc.summary(), "fault": inj.describe(), "outcome": oc})
    ctx.classify("target=" + case["kind"])
