"""C13 - I/O failures surface as errors and leave no half-bound pid."""
import itertools
import os

from .. import common, fault, fsi, gen, scen, seq
from ..common import call, is_ok

ID = "C13"
LEVEL = "fault_enumeration"
RULE = ("Hypothesis draws a scenario (store algorithm, content size, generated start state with bystander pids "
        "that share the target's object / own metadata, one call from {store_object new / duplicate / additional "
        "pid / in-memory stream / re-bind, tag_object onto unreferenced / shared / object-less cid / re-bind, "
        "delete_object sole / shared / with metadata, store_metadata new / overwrite, delete_metadata one / all}). "
        "For EVERY fault site of the call (each mutating operation - create, write, flush, close, rename, remove, "
        "mkdir, chmod, truncate, flock - and each open for reading; stat-class probes are not sites) an OSError "
        "(EIO in the quick tier; EIO, ENOSPC, EACCES in the thorough tier) is injected, once as a one-off failure "
        "of that operation and once persisting for that destination path until the call returns. Oracle: (1) "
        "normal return => objects, references, metadata and every retrieve equal those of the fault-free run; (2) "
        "failed store_object / tag_object => the earlier binding is intact, or the pid is unbound and the same call "
        "retried without the fault succeeds and serves the data; (3) failed store_metadata => previous version / "
        "absence intact; (4) always every other pid's object, references and metadata untouched. evaluations = "
        "faulted executions. Non-trivial = fault after the call's first mutation; distinct key = (call kind, "
        "boundary kind, path class, mode, errno, outcome class)."
        " Enumerated family next-to: thread 0 gets one EIO at its k-th fault site (every k), thread 1 runs a clean concurrent call on the same content / pid / list, every conflict-directed single-preemption schedule; the clean call's normal return must carry its whole effect, bystanders of the start state are untouched.")
EXHAUSTIVE_NOTE = "within each scenario every fault site x mode (x errno) of the call is injected"
ASSUMPTIONS = ["faults are OSErrors raised at the Python/OS boundary before the operation takes effect",
               "temp-file residue after an I/O failure is not judged (the property does not claim it)"]
SHRINK_BUDGET = 60.0


def examples(tier):
    return 240 if tier == "quick" else 2400


def strategy(tier):
    return scen.scenarios()


# ---- a faulted call NEXT TO a concurrent call -------------------------------------------------------------------------
# "in all cases every other pid's data is untouched" - also the data of a pid that another thread is storing at that moment.
# Thread 0 gets one one-off EIO at its k-th fault site (every k in turn); thread 1 runs clean; schedules = every single
# preemption that lands immediately before an operation that does not commute with the other thread (conc.conflict_directed).
from .. import conc, sched   # noqa: E402

NX, NY = 0, 1
NEXT_TO = {
    # name: (start ops, faulted call, clean call)
    "store-new/store-same-content": ([], {"op": "store", "pid": "p", "c": NX}, {"op": "store", "pid": "q", "c": NX}),
    "store-new/tag-same-content": ([], {"op": "store", "pid": "p", "c": NX}, {"op": "tag", "pid": "q", "cid": {"of": NX}}),
    "tag/store-same-content": ([{"op": "store", "pid": None, "c": NX}], {"op": "tag", "pid": "p", "cid": {"of": NX}},
                               {"op": "store", "pid": "q", "c": NX}),
    "store-additional/store-additional": ([{"op": "store", "pid": "r", "c": NX}], {"op": "store", "pid": "p", "c": NX},
                                          {"op": "store", "pid": "q", "c": NX}),
    "delete-shared/store-additional": ([{"op": "store", "pid": "r", "c": NX}, {"op": "store", "pid": "p", "c": NX}],
                                       {"op": "delete", "pid": "p"}, {"op": "store", "pid": "q", "c": NX}),
    "store-rejected/store-same-content": ([{"op": "store", "pid": "p", "c": NY}], {"op": "store", "pid": "p", "c": NX},
                                          {"op": "store", "pid": "q", "c": NX}),
    "smeta/smeta-other-format": ([{"op": "smeta", "pid": "p", "fmt": "f", "d": 0}], {"op": "smeta", "pid": "p", "fmt": "f", "d": 1},
                                 {"op": "smeta", "pid": "p", "fmt": "g", "d": 1}),
    # the faulted call DELETES what the clean call stores a new version of: afterwards the document is the new version or absent -
    # never the old version again (a failed delete that "puts back" what it had set aside)
    "delete-metadata-all/smeta-same-pid": ([{"op": "smeta", "pid": "p", "fmt": "f", "d": 0}, {"op": "smeta", "pid": "p", "fmt": "g", "d": 0},
                                            {"op": "smeta", "pid": "p", "fmt": "h", "d": 0}],
                                           {"op": "dmeta", "pid": "p", "fmt": None}, {"op": "smeta", "pid": "p", "fmt": "f", "d": 1}),
    "delete-object/smeta-same-pid": ([{"op": "store", "pid": "p", "c": NX}, {"op": "smeta", "pid": "p", "fmt": "f", "d": 0},
                                      {"op": "smeta", "pid": "p", "fmt": "g", "d": 0}],
                                     {"op": "delete", "pid": "p"}, {"op": "smeta", "pid": "p", "fmt": "g", "d": 1}),
    "smeta/delete-metadata-all": ([{"op": "smeta", "pid": "p", "fmt": "f", "d": 0}, {"op": "smeta", "pid": "q", "fmt": "f", "d": 0}],
                                  {"op": "smeta", "pid": "p", "fmt": "g", "d": 1}, {"op": "dmeta", "pid": "q", "fmt": None}),
}
NEXT_BASE = {"cfg": {"algo": "SHA-256", "depth": 2, "width": 2}, "contents": [{"hex": "5858585858"}, {"hex": "5959"}],
             "docs": [{"hex": "6f6c64"}, {"hex": "6e6577"}]}


def enumerate_cases(tier):
    for name in NEXT_TO:
        for first in (0, 1):
            for sticky in (False, True, "full"):
                yield dict(NEXT_BASE, family="next-to", pair=name, start=NEXT_TO[name][0], firsts=[first], sticky=sticky)


def case_cost(case):
    return 10


class _ThreadFault:
    """EIO at the k-th fault site of thread 0 (sites counted over that thread's own operations only): once, or (sticky)
    persisting for that destination path for the rest of thread 0's call."""

    def __init__(self, k, sticky=False):
        self.k, self.n, self.fired, self.sticky = k, 0, None, sticky

    def __call__(self, t, ev):
        if t is None or t.idx != 0 or not fault.is_site(ev):
            return
        if self.sticky == "full":
            # the disk fills up under thread 0's call: from its k-th operation that needs space on, every such operation of
            # thread 0 fails with ENOSPC (removals keep working); what thread 1 does had its space before
            if ev.kind not in fault.SPACE:
                return
            if self.fired is not None or self.n == self.k:
                if self.fired is None:
                    self.fired = ev
                raise fault.make_oserror(fault.ERRNOS["ENOSPC"], "No space left on device [injected]", ev)
            self.n += 1
            return
        if self.fired is not None:
            if self.sticky and self.fired.dest in ev.paths:
                raise fault.make_oserror(fault.ERRNOS["EIO"], "Input/output error [injected, persisting]", ev)
            return
        if self.n == self.k:
            self.fired = ev
            raise fault.make_oserror(fault.ERRNOS["EIO"], "Input/output error [injected]", ev)
        self.n += 1


def _next_to_case(case, ctx):
    fsi.install()
    start, faulted, clean = NEXT_TO[case["pair"]]
    calls = [faulted, clean]
    world = conc.World(case, ctx)
    cfg = world.cfg
    ctx.evaluations -= 1
    # what the pids of the start state serve
    d0 = world.fresh_copy()
    s0 = common.make_store(d0, cfg)
    start_pids = sorted({o["pid"] for o in start if o.get("pid")})

    def served(store):
        out = {}
        for p in start_pids + ["p", "q"]:
            o = common.retrieve_bytes(store, p)
            out[("obj", p)] = ("ok", o[1]) if is_ok(o) else ("err", o[1])
            for f in ("f", "g", "h"):
                o = common.retrieve_meta_bytes(store, p, f)
                out[("meta", p, f)] = ("ok", o[1]) if is_ok(o) else ("err", o[1])
        return out
    served0 = served(s0)
    import shutil as _sh
    _sh.rmtree(d0, ignore_errors=True)
    k = 0
    total = 0
    while k < 200:
        fired_any = False
        fac = lambda k=k: _ThreadFault(k, case.get("sticky", False))   # noqa
        fac.is_factory = True
        for order, pre, ex, stats in conc.conflict_directed_schedules(world, calls, max_preempt=1, firsts=tuple(case["firsts"]),
                                                                      extra_on_op=fac, keep_dir=True):
            inj = ex.extra
            try:
                if inj.fired is None:
                    continue
                fired_any = True
                ctx.count()
                total += 1
                where = (f"[{case['pair']}] thread0={conc.op_pattern(faulted, world)}:{faulted.get('pid')} with {'ENOSPC from then on at every operation of that thread that needs space' if case.get('sticky') == 'full' else 'EIO persisting for the destination' if case.get('sticky') else 'EIO once'} at its fault site #{k} "
                         f"[{inj.fired.brief(os.path.realpath(ex.dir))}], thread1={conc.op_pattern(clean, world)}:{clean.get('pid')} clean; "
                         f"order={order} preemptions={pre}; outcomes {ex.outcomes}")
                sig = {"family": "next-to", "pair": case["pair"], "site": inj.fired.kind, "path_class": fault.path_class(ex.dir, inj.fired),
                       "mode": "disk-full" if case.get("sticky") == "full" else "sticky" if case.get("sticky") else "one-off"}
                if ex.deadlock:
                    ctx.violation("deadlock", f"{where}: no thread runnable: {ex.deadlock}", dict(sig, failure="deadlock"))
                    continue
                now = served(ex.store)
                # (a) pids of the start state that neither call names: untouched
                for key, v in served0.items():
                    if key[1] in ("p", "q"):
                        continue
                    if now[key] != v:
                        ctx.violation("fault-harmed-bystander", f"{where}: {key} was {scen._s(v)} and is now {scen._s(now[key])}",
                                      dict(sig, failure="bystander"))
                # (b) the clean call: a normal return means its whole effect
                o1 = ex.outcomes[1]
                # (tag_object does not require the object to exist: only a tag onto an object of the START state is judged)
                if o1[0] == "ok" and (clean["op"] == "store" or (clean["op"] == "tag" and any(
                        s["op"] == "store" and s.get("c") == clean["cid"]["of"] for s in start))):
                    want = world.contents[clean["c"] if clean["op"] == "store" else clean["cid"]["of"]]
                    got = now[("obj", clean["pid"])]
                    if got != ("ok", want):
                        ctx.violation("concurrent-call-harmed", f"{where}: the clean call returned normally but its pid now yields "
                                      f"{scen._s(got)}", dict(sig, failure="clean-call-lost-its-effect"))
                if o1[0] == "ok" and clean["op"] == "smeta":
                    got = now[("meta", clean["pid"], clean["fmt"])]
                    deleter_next_to_it = faulted["op"] in ("dmeta", "delete") and faulted["pid"] == clean["pid"]
                    if got != ("ok", world.docs[clean["d"]]) and not (deleter_next_to_it and got[0] == "err"):
                        ctx.violation("concurrent-call-harmed", f"{where}: the clean store_metadata returned normally but the document "
                                      f"now yields {scen._s(got)}", dict(sig, failure="clean-call-lost-its-effect"))
                # (c) the faulted call: normal return => whole effect; raise => earlier state of ITS pid intact or retry works
                o0 = ex.outcomes[0]
                if o0[0] == "ok" and (faulted["op"] == "store" or (faulted["op"] == "tag" and any(
                        s["op"] == "store" and s.get("c") == faulted["cid"]["of"] for s in start))):
                    want = world.contents[faulted["c"] if faulted["op"] == "store" else faulted["cid"]["of"]]
                    if now[("obj", faulted["pid"])] != ("ok", want):
                        ctx.violation("success-without-effect", f"{where}: the faulted call returned normally but its pid yields "
                                      f"{scen._s(now[('obj', faulted['pid'])])}", dict(sig, failure="success-without-effect"))
                if faulted["op"] == "smeta" and o0[0] == "err":
                    key = ("meta", faulted["pid"], faulted["fmt"])
                    if now[key] != served0[key]:
                        ctx.violation("previous-metadata-lost", f"{where}: store_metadata raised; the document was {scen._s(served0[key])} "
                                      f"and is now {scen._s(now[key])}", dict(sig, failure="previous-metadata-lost"))
                if faulted["op"] in ("store", "tag") and o0[0] == "err" and served0[("obj", faulted["pid"])][0] == "ok":
                    if now[("obj", faulted["pid"])] != served0[("obj", faulted["pid"])]:
                        ctx.violation("earlier-binding-lost", f"{where}: the pid's earlier binding now yields "
                                      f"{scen._s(now[('obj', faulted['pid'])])}", dict(sig, failure="earlier-binding-lost"))
                ctx.classify("next-to:" + case["pair"])
                ctx.classify("next-to outcome of the faulted call=" + o0[0])
                if pre:
                    ctx.nontrivial(["next-to", case["pair"], k, inj.fired.kind, order, pre, ex.outcomes])
            finally:
                if ex.dir:
                    _sh.rmtree(ex.dir, ignore_errors=True)
        if not fired_any:
            break
        k += 1
    ctx.sample({"family": "faulted call next to a concurrent call", "pair": case["pair"], "first": case["firsts"], "fault_sites": k,
                "executions": total})


def _core(a):
    return {"o": a["objects"], "p": a["pidrefs"], "c": {k: sorted(v) for k, v in a["cidrefs"].items()},
            "m": a["metadata"]}


def run_case(case, ctx):
    if case.get("family") == "next-to":
        return _next_to_case(case, ctx)
    fsi.install()
    sc = scen.Scenario(case, ctx)
    cfg = sc.cfg
    tgt = case["target"]
    X = sc.contents[0]
    # fault-free reference run
    d0 = sc.fresh_copy()
    s0 = common.make_store(d0, cfg)
    out0 = sc.call_target(s0)
    ref_alpha = _core(common.alpha(d0, cfg))
    ref_served = sc.observe(s0)
    sc.discard(d0)
    bound0 = sc.served0[("obj", scen.T)]
    errnos = ("EIO",) if ctx.tier == "quick" else ("EIO", "ENOSPC", "EACCES")
    ctx.evaluations -= 1
    # ("vanish": the call's temporary file is really removed by a third party - a tmp reaper - right before the operation that
    #  needs it, so the operation fails with a genuine 'no such file', which handlers like to treat as "already gone")
    runs = itertools.chain(fault.faulted_runs(sc, errnos=errnos), fault.faulted_runs(sc, modes=("full",), errnos=("ENOSPC",)),
                           fault.faulted_runs(sc, modes=("vanish",), errnos=("ENOENT",)))
    for inj, store, d, out in runs:
        ctx.count()
        ev = inj.fired
        where = f"{case['kind']} with {inj.describe()}"
        pc = fault.path_class(d, ev)
        mode = "disk-full" if inj.sticky == "full" else "tmp-file-vanished" if inj.sticky == "vanish" else "sticky" if inj.sticky else "one-off"
        sig = {"call": case["kind"], "op": tgt["op"], "path_class": pc, "mode": mode, "site": ev.kind}
        a = common.alpha(d, cfg)
        oc = "ok" if is_ok(out) else out[1]
        if is_ok(out) and is_ok(out0):
            if _core(a) != ref_alpha:
                diff = {k: seq._dd(_core(a)[k], ref_alpha[k]) for k in "opcm" if _core(a)[k] != ref_alpha[k]}
                ctx.violation("success-without-effect", f"{where}: the call returned normally but the store differs "
                              f"from the fault-free run: {diff}; scenario {sc.summary()}", sig)
            served = sc.observe(store)
            if served != ref_served:
                bad = [k for k in served if served[k] != ref_served[k]]
                ctx.violation("success-without-effect", f"{where}: the call returned normally but {bad[:3]} differ "
                              f"from the fault-free run; scenario {sc.summary()}", sig)
        elif is_ok(out) and not is_ok(out0):
            ctx.violation("fault-turned-rejection-into-success", f"{where}: fault-free call raises {out0[1]} but the "
                          f"faulted call returned normally; scenario {sc.summary()}", sig)
        elif not is_ok(out):
            if tgt["op"] in ("store", "tag"):
                o = common.retrieve_bytes(store, scen.T)
                if bound0[0] == "ok":
                    if not is_ok(o) or o[1] != bound0[1]:
                        ctx.violation("earlier-binding-lost", f"{where}: the call raised {oc} and the pid's earlier "
                                      f"binding now yields {o[1] if not is_ok(o) else seq._short(o[1])}; scenario "
                                      f"{sc.summary()}", dict(sig, failure="earlier-binding-lost"))
                elif is_ok(out0):
                    retry = sc.call_target(store)
                    o2 = common.retrieve_bytes(store, scen.T)
                    want = sc.contents[tgt["c"]] if tgt["op"] == "store" else sc.contents[tgt["cid"]["of"]]
                    if not is_ok(retry):
                        ctx.violation("retry-rejected", f"{where}: the call raised {oc}; the same call retried "
                                      f"without the fault raised {retry[1]}: {retry[2][:160]}; pid state before the "
                                      f"retry: {'served' if is_ok(o) else o[1]}; scenario {sc.summary()}",
                                      dict(sig, failure="retry-rejected", retry_err=retry[1]))
                    elif (("ok", o2[1]) if is_ok(o2) else ("err", o2[1])) != ref_served[("obj", scen.T)]:
                        # (what the fault-free call makes of the pid: its bytes, or "object missing" for a tag before the upload)
                        ctx.violation("retry-not-retrievable", f"{where}: retry succeeded but the pid yields "
                                      f"{o2[1] if not is_ok(o2) else seq._short(o2[1])} (fault-free run: "
                                      f"{scen._s(ref_served[('obj', scen.T)])}); scenario {sc.summary()}",
                                      dict(sig, failure="retry-not-retrievable"))
            elif tgt["op"] == "smeta":
                key = ("meta", scen.T, tgt.get("fmt"))
                o = common.retrieve_meta_bytes(store, scen.T, tgt.get("fmt"))
                now = ("ok", o[1]) if is_ok(o) else ("err", o[1])
                if now != sc.served0[key]:
                    ctx.violation("previous-metadata-lost", f"{where}: store_metadata raised {oc}; the document was "
                                  f"{scen._s(sc.served0[key])} and is now {scen._s(now)}; scenario {sc.summary()}",
                                  dict(sig, failure="previous-metadata-lost"))
        p = sc.bystander_problem(store, common.alpha(d, cfg), where + f" (outcome {oc})")
        if p:
            ctx.violation("fault-harmed-bystander", f"{p[1]}; scenario {sc.summary()}", dict(sig, failure="bystander", harm=p[0]))
        ctx.classify("outcome=" + ("ok" if is_ok(out) else "raised"))
        ctx.classify("mode=" + mode)
        ctx.classify("site=" + ev.kind)
        if inj.k >= 1:
            ctx.nontrivial([case["kind"], ev.kind, pc, mode, inj.errno_name, "ok" if is_ok(out) else "raised"])
            if inj.k in (2, 9, 17) and inj.sticky:
                ctx.sample({"scenario": sc.summary(), "fault": inj.describe(), "outcome": oc})
    ctx.classify("target=" + case["kind"])
