"""C18 - identifiers are opaque: arbitrary pid / format strings never alias or escape."""
import os
import unicodedata

from hypothesis import strategies as st

from .. import common, gen, ops, seq
from ..common import is_ok

ID = "C18"
LEVEL = "exploration"
RULE = ("Hypothesis draws a base identifier (arbitrary Unicode without str.isspace characters and "
        "without surrogates; path material such as '/', '..', '../../x', leading '.', '-', '~'; shell "
        "and glob characters; decomposable characters; lengths up to 5000) and derives two RELATED "
        "identifiers from it (prefix, suffix, case variant, x_delete, NFC/NFD form, concatenation "
        "split ('ab','c') vs ('a','bc') for (pid, format) pairs); a history of <=16 calls (store, "
        "tag, store_metadata, retrieve, delete_metadata, delete_object) runs over the three pids and "
        "three formats with one object shared between them. Oracle (observational): around every "
        "call on identifier X, for every other identifier Y (and every other format of X for "
        "metadata calls) retrieve_object / retrieve_metadata results are identical before and after, "
        "Y's reference file, Y's documents and Y's line in every cid list are unchanged on disk; the "
        "parent directory outside the store root is byte-for-byte unchanged and every file inside "
        "the root sits at a hash-derived location (or in a tmp directory). Non-trivial = the history "
        "touches >=2 related identifiers with >=1 mutating call; distinct key = (relation kinds, "
        "identifier shape classes, op sequence)."
        ' One case in eight uses two pids that are the paths of two existing files with equal content; after a successful store / tag / store_metadata the reference / document must exist at shard(H(pid)) [/H(pid+format)] computed from the identifier STRING.')
ASSUMPTIONS = ["identifiers contain no whitespace (str.isspace) and no lone surrogates, as the API requires",
               "single thread"]

WS = "".join(chr(c) for c in range(0x110000) if chr(c).isspace())
NASTY = ["/", "..", "../../x", ".", ".hidden", "-rf", "~", "~root", "a/../b", "/etc/passwd", "*", "?",
         "[a-z]", "$HOME", "`id`", ";", "|", "&&", "\\", "'", '"', "%s", "{}", "_delete", "tmp",
         "r\u00e9sum\u00e9", "\u00c5ngstr\u00f6m", "\ud55c\uae00", "\u01c4", "stra\u00dfe", "\x00", "\x7f",
         "doi:10.5063/F1", "https://doi.org/10.5063/F1?x=1&y=2#frag", "urn:uuid:0a1b", "C:\\x", "%2e%2e%2f"]


def _base():
    txt = st.text(alphabet=st.characters(exclude_categories=("Cs",), exclude_characters=WS),
                  min_size=1, max_size=24)
    nasty = st.sampled_from(NASTY)
    combo = st.builds(lambda a, b, c: a + b + c, st.one_of(st.just(""), txt), nasty, st.one_of(st.just(""), txt))
    long_ = st.builds(lambda s, k: (s * (k // len(s) + 1))[:k], st.one_of(txt, nasty), st.integers(200, 5000))
    return st.one_of(txt, nasty, combo, combo, long_)


RELATIONS = ["prefix", "suffix", "case", "delete-suffix", "nfd", "nfc", "slash", "dotdot", "bom", "percent-encoded"]


def relate(b, rel, salt):
    if rel == "prefix":
        r = b + salt
    elif rel == "suffix":
        r = salt + b
    elif rel == "case":
        r = b.swapcase()
    elif rel == "delete-suffix":
        r = b + "_delete"
    elif rel == "nfd":
        r = unicodedata.normalize("NFD", b)
    elif rel == "nfc":
        r = unicodedata.normalize("NFC", b)
    elif rel == "bom":
        r = "\ufeff" + b          # U+FEFF is not white space: a different identifier
    elif rel == "slash":
        r = b + "/" + salt
    elif rel == "percent-encoded":
        # the same identifier as it looks inside a REST url: every reserved character (at least the last one) as %HH - a
        # different string, hence a different identifier
        import urllib.parse
        r = urllib.parse.quote(b, safe="")
        if r == b:
            r = b[:-1] + "".join(f"%{x:02X}" for x in b[-1:].encode("utf-8"))
    else:
        r = "../" + b
    if r == b or any(ch.isspace() for ch in r) or not r:
        r = b + salt + "~" + rel
    return r


@st.composite
def _case(draw, tier):
    cfg = draw(gen.store_cfgs())
    b = draw(_base())
    salt = draw(st.sampled_from(["x", ".1", "0", "\u00e9", "Z"]))
    rels = [draw(st.sampled_from(RELATIONS)), draw(st.sampled_from(RELATIONS))]
    # a normalisation relation needs a base that the normal form changes
    if "nfd" in rels and unicodedata.normalize("NFD", b) == b:
        b = b + "\u00e9\u1e69"          # precomposed: e-acute, s with dot below and dot above
    if "nfc" in rels and unicodedata.normalize("NFC", b) == b:
        b = b + "e\u0301s\u0323\u0307"  # decomposed
    ids = [b, relate(b, rels[0], salt)]
    third = relate(draw(st.sampled_from(ids)), rels[1], salt + "2")
    while third in ids:
        third += "#"
    ids.append(third)
    # formats: default, and a pair that splits the concatenation pid+format differently
    f0 = draw(st.one_of(st.sampled_from(["c", "bc", "fmt/../x", "http://ns/v1"]), _base().filter(lambda s: len(s) < 400)))
    fmts = [None, f0, ids[0][-1:] + f0 if len(ids[0]) > 1 else f0 + "x"]
    if fmts[2] == fmts[1]:
        fmts[2] += "'"
    pi, fi = st.integers(0, 2), st.integers(0, 2)
    op = ops.weighted(
        (4, st.fixed_dictionaries({"op": st.just("store"), "pi": pi, "c": st.sampled_from([0, 0, 1])})),
        (2, st.fixed_dictionaries({"op": st.just("tag"), "pi": pi, "c": st.just(0)})),
        (4, st.fixed_dictionaries({"op": st.just("smeta"), "pi": pi, "fi": fi, "d": st.integers(0, 2)})),
        (2, st.fixed_dictionaries({"op": st.just("dmeta"), "pi": pi, "fi": st.sampled_from([0, 1, 2, None])})),
        (4, st.fixed_dictionaries({"op": st.just("delete"), "pi": pi})),
        (1, st.fixed_dictionaries({"op": st.just("retrieve"), "pi": pi})))
    # also the pid 'ab' / format 'c'  vs pid 'a' / format 'bc' situation: the third id may be ids[0][:-1]
    if len(ids[0]) > 1 and draw(st.booleans()):
        cand = ids[0][:-1]
        if cand and cand not in ids and not any(ch.isspace() for ch in cand):
            ids[2] = cand
            rels[1] = "split"
    # one case in eight: the second pid IS the hex digest of the first under the store algorithm (and the third the digest of
    # pid+format): an identifier that looks like one of the store's own addresses is still just an identifier
    if draw(st.integers(0, 7)) == 0:
        import hashlib
        halgo = common.STORE_ALGOS[cfg["algo"]]
        ids[1] = hashlib.new(halgo, ids[0].encode("utf-8")).hexdigest()
        ids[2] = hashlib.new(halgo, (ids[0] + (f0 if isinstance(f0, str) else "")).encode("utf-8")).hexdigest()
        if ids[2] == ids[1]:
            ids[2] += "0"
        rels[0], rels[1] = "digest-of", "digest-of-pid+format"
    # one case in eight: two pids that are the PATHS OF TWO EXISTING FILES with equal content (an identifier is a
    # string, whatever it happens to name on the host)
    if draw(st.integers(0, 7)) == 0:
        ids[0], ids[1] = seq.PIDFILE[0], seq.PIDFILE[1]
        rels[0] = "twin-files"
    return {"cfg": cfg, "ids": ids, "fmts": fmts, "rels": rels,
            "contents": [{"hex": "7368617265642d6f626a656374"}, {"hex": "6f74686572"}],
            "docs": [{"hex": "6d30"}, {"hex": "6d31"}, {"hex": ""}],
            "ops": draw(ops.history(op, 2, 16))}


def strategy(tier):
    return _case(tier)


def examples(tier):
    return 1000 if tier == "quick" else 40000


def _shape(s):
    cls = []
    if len(s) > 150:
        cls.append("long")
    if "/" in s or "\\" in s:
        cls.append("sep")
    if ".." in s:
        cls.append("dotdot")
    if s[:1] in ".-~":
        cls.append("lead")
    if any(ord(c) > 127 for c in s):
        cls.append("nonascii")
    if any(ord(c) < 32 or ord(c) == 127 for c in s):
        cls.append("ctrl")
    if any(c in "*?[]$`;|&'\"%{}" for c in s):
        cls.append("meta")
    return cls


def _observe(run, ids, fmts):
    obs = {}
    for i, y in enumerate(ids):
        o = common.retrieve_bytes(run.store, y)
        obs[("obj", i)] = ("ok", o[1]) if is_ok(o) else ("err", o[1])
        for j, f in enumerate(fmts):
            o = common.retrieve_meta_bytes(run.store, y, f)
            obs[("meta", i, j)] = ("ok", o[1]) if is_ok(o) else ("err", o[1])
    return obs


def _disk_of(run, alpha, y):
    cfg = run.cfg
    h = cfg.H(y)
    return {"pidref": alpha["pidrefs"].get(h),
            "docs": sorted((k[1], v) for k, v in alpha["metadata"].items() if k[0] == h),
            "lines": sorted((c, l.count(y)) for c, l in alpha["cidrefs"].items() if y in l)}


def run_case(case, ctx):
    fmts = case["fmts"]
    run = seq.Run(case, ctx)
    ids = [run.rp(x) for x in case["ids"]]
    parent = run.work
    outside0 = {k: v for k, v in common.snapshot(parent).items()
                if not k.startswith("store/") and k != "store/"}
    touched, mutating, trace = set(), 0, []
    for op in case["ops"]:
        k, i = op["op"], op["pi"]
        x = ids[i]
        real = {"op": k, "pid": x}
        if k == "store":
            real["c"] = op["c"]
        elif k == "tag":
            real["cid"] = {"of": 0}
        elif k == "smeta":
            real.update(fmt=fmts[op["fi"]], d=op["d"])
        elif k == "dmeta":
            real["fmt"] = None if op["fi"] is None else fmts[op["fi"]]
            if op["fi"] == 0:
                real["fmt"] = run.cfg.ns  # delete exactly the default-namespace document
        before = _observe(run, ids, fmts)
        a0 = run.alpha
        r = run.step(real)
        after = _observe(run, ids, fmts)
        a1 = r.alpha
        d = {"step": r.i, "op": k, "on": repr(x)[:80], "outcome": "ok" if is_ok(r.out) else r.out[1]}
        for key in before:
            if key[1] == i:
                # same pid: only other formats of a metadata call are bystanders
                if not (k in ("smeta", "dmeta") and key[0] == "meta" and op.get("fi") is not None
                        and key[2] != op["fi"] and fmts[key[2]] != real.get("fmt")
                        and not (key[2] == 0 and real.get("fmt") == run.cfg.ns)):
                    continue
            if before[key] != after[key]:
                if key[0] == "obj" and before[key] == ("err", "RefsFileExistsButCidObjMissing") \
                        and after[key][0] == "ok" and k == "store":
                    continue  # the shared, content-addressed object legitimately (re)appeared
                y = ids[key[1]]
                ctx.violation("cross-talk", f"{d}: {key[0]} view of bystander {repr(y)[:80]}"
                              f"{'' if key[0] == 'obj' else ' format ' + repr(fmts[key[2]])[:40]} changed "
                              f"from {_s(before[key])} to {_s(after[key])} (relations {case['rels']})",
                              {"view": key[0], "op": k})
        for j, y in enumerate(ids):
            if j != i and _disk_of(run, a0, y) != _disk_of(run, a1, y):
                ctx.violation("bystander-files-changed", f"{d}: files of bystander {repr(y)[:80]} changed: "
                              f"{_disk_of(run, a0, y)} -> {_disk_of(run, a1, y)}", {"op": k})
        # location derived from hashes of the identifier STRING only
        if is_ok(r.out) and k in ("store", "tag") and run.cfg.H(x) not in a1["pidrefs"]:
            ctx.violation("reference-not-at-hash-of-identifier", f"{d}: the call returned normally but there is no pid reference "
                          f"at shard(H(pid)); pid references now {sorted(h[:10] for h in a1['pidrefs'])}", {"op": k})
        if is_ok(r.out) and k == "smeta":
            f = run.cfg.ns if real.get("fmt") is None else real["fmt"]
            if (run.cfg.H(x), run.cfg.H(x + f)) not in a1["metadata"]:
                ctx.violation("document-not-at-hash-of-identifier", f"{d}: the call returned normally but there is no document at "
                              f"shard(H(pid))/H(pid+format)", {"op": k})
        misplaced = [p for p in a1["residue"] if "/tmp/" not in p and not p.endswith("_delete")]
        if misplaced:
            ctx.violation("file-not-at-hash-location", f"{d}: {misplaced[:4]}", {"op": k})
        touched.add(i)
        if k != "retrieve" and is_ok(r.out):
            mutating += 1
        trace.append([k, i, op.get("fi"), d["outcome"]])
    outside1 = {k: v for k, v in common.snapshot(parent).items()
                if not k.startswith("store/") and k != "store/"}
    if outside0 != outside1:
        ctx.violation("escaped-root", f"files outside the store root changed: {common.snap_diff(outside0, outside1)}; "
                      f"ids={[repr(s)[:60] for s in ids]}", {})
    shapes = sorted(set(sum((_shape(s) for s in ids), [])))
    for s in shapes:
        ctx.classify("shape=" + s)
    for rel in case["rels"]:
        ctx.classify("rel=" + rel)
    if len(touched) >= 2 and mutating >= 1:
        ctx.nontrivial([case["rels"], shapes, trace])
        ctx.sample({"ids": [repr(s)[:70] for s in ids], "fmts": [repr(f)[:40] for f in fmts],
                    "rels": case["rels"], "ops": trace[:12]})


def _s(o):
    return (o[0], seq._short(o[1]))
