"""C15 - the on-disk layout follows the published HashStore layout for every configuration."""
import hashlib
import os

import yaml
from hypothesis import strategies as st

from .. import common, gen, seq
from ..common import Cfg, call, is_ok
from . import c18

ID = "C15"
LEVEL = "exploration"
RULE = ("Hypothesis draws TWO configurations (depth 1-6 x width 1-4 with depth*width <= 24, the five "
        "store algorithms, two namespaces), three pids and two format ids from the adversarial "
        "identifier generator of C18 (plus plain ones), and contents; one process then runs the same "
        "fixed script on a store of each configuration (3 pids - one a suffix, one an extension of another - "
        "sharing one content + 1 other, metadata in 2 formats + default, a reopen, delete of the other and of "
        "the suffix pid). Oracle: an independent "
        "implementation of the README layout (own sharding, own hashing of UTF-8 strings, own "
        "expected file contents: pid ref = cid without newline, cid list = one newline-terminated "
        "pid per line) predicts the COMPLETE set of relative paths and file contents under each "
        "root; exact equality; hashstore.yaml parsed with yaml.safe_load carries the documented "
        "keys and values. Non-trivial = (depth, width, algorithm) != (3, 2, SHA-256); distinct key = "
        "(both configurations, identifier shape classes)."
        ' One case in six makes the surviving pid the path of an existing regular file.')
ASSUMPTIONS = ["layout as described in README.md 'Working with objects' / hashstore.yaml comments"]


# namespaces that are not plain YAML scalars: the configuration file must still record the exact string (quoting is the
# writer's business), otherwise another implementation computes other document names
YAML_HOSTILE_NS = ["https://ns.example/v2 #sysmeta", "ns: v2", "@ns", "2.0", "yes", "null", "ns:", "'quoted'", "[x]", "{a}", "- x",
                   "0x1F", "1e3", "%TAG", "!x", "&anchor", "*alias", "|", "> folded", "urn:\u00fc\u20ac"]


def examples(tier):
    return 500 if tier == "quick" else 20000


def _cfg():
    return st.builds(lambda a, d, w, n: {"algo": a, "depth": d, "width": w, "ns": n},
                     st.sampled_from(sorted(common.STORE_ALGOS)), st.integers(1, 6), st.integers(1, 4),
                     st.sampled_from([common.DEFAULT_NS, "http://ns.example/v2", common.DEFAULT_NS] + YAML_HOSTILE_NS)) \
        .filter(lambda c: c["depth"] * c["width"] <= 24)


@st.composite
def _case(draw, tier):
    plain = st.sampled_from(["doi:10.5063/F1XYZ", "https://doi.org/doi:10.5063/F1XYZ", "urn:uuid:1", "a", "ab"])
    ident = st.one_of(plain, plain, c18._base().filter(lambda s: len(s) < 600))
    ids = []
    while len(ids) < 3:
        s = draw(ident)
        if s not in ids:
            ids.append(s)
    if draw(st.booleans()):
        ids[1] = draw(st.sampled_from(["x/", "pre:", "0"])) + ids[0]   # ids[0] is a suffix of ids[1]
    ids.append(ids[1] + draw(st.sampled_from([".2", "/v2", "x"])))    # ids[3] extends ids[1]
    for i in range(len(ids)):                                          # the four identifiers must be distinct
        while ids[i] in ids[:i]:
            ids[i] += "'"
    fmts = [draw(st.sampled_from(["http://www.ns.test/v1", "c", "fmt/../x"])),
            draw(st.one_of(st.just("bc"), c18._base().filter(lambda s: len(s) < 200)))]
    if fmts[0] == fmts[1]:
        fmts[1] += "2"
    return {"cfgs": [draw(_cfg()), draw(_cfg())], "ids": ids, "fmts": fmts,
            "contents": [draw(gen.contents(max_small=32)), draw(gen.contents(max_small=32, big=False))],
            "order": draw(st.sampled_from([[0, 1], [1, 0]])),
            # one case in six: the surviving pid is also the path of an existing regular file
            "filepid": draw(st.integers(0, 5)) == 0,
            # one case in five: the store path is RELATIVE to the current directory (and has a blank in it)
            "relative_root": draw(st.integers(0, 4)) == 0,
            # one case in four: depth and width are given as integer-like strings (hashstore.yaml must still record integers)
            "int_as_str": draw(st.integers(0, 3)) == 0}


def strategy(tier):
    return _case(tier)


def _script(store_factory, ids, fmts, files):
    """ids[0] is (often) a suffix of ids[1]; ids[3] extends ids[1].  ids[0], ids[1], ids[3] share content X."""
    outs = [call(store_factory)]
    if not is_ok(outs[0]):
        return outs
    s = outs[0][1]
    outs.append(call(s.store_object, ids[0], files[0]))
    outs.append(call(s.store_object, ids[1], files[0]))
    outs.append(call(s.store_object, ids[2], files[1]))
    outs.append(call(s.store_object, ids[3], files[0]))
    outs.append(call(s.store_metadata, ids[0], files[2], fmts[0]))
    outs.append(call(s.store_metadata, ids[0], files[3]))
    outs.append(call(s.store_metadata, ids[1], files[3]))
    outs.append(call(store_factory))     # a reopen in the middle of the script
    if not is_ok(outs[-1]):
        return outs
    s = outs[-1][1]
    outs.append(call(s.store_metadata, ids[1], files[2], fmts[1]))
    outs.append(call(s.store_metadata, ids[2], files[2], fmts[0]))
    outs.append(call(s.delete_object, ids[2]))
    outs.append(call(s.delete_object, ids[0]))
    return outs


def _expected(cfg, ids, fmts, X, Y, d0, d1):
    exp = {}
    cidx = cfg.digest(X)
    exp[cfg.obj_rel(cidx)] = X
    exp[cfg.pidref_rel(ids[1])] = cidx.encode()
    exp[cfg.pidref_rel(ids[3])] = cidx.encode()
    exp[cfg.cidref_rel(cidx)] = ("cidlist", sorted([ids[1], ids[3]]))
    exp[cfg.meta_rel(ids[1], None)] = d1
    exp[cfg.meta_rel(ids[1], fmts[1])] = d0
    return exp


_RUN = [0]


def run_case(case, ctx):
    work = ctx.scratch("c15")
    # identifiers get a per-execution suffix so that process-wide state keyed by pid cannot leak from
    # one generated case into the next (a failure must reproduce from its own replay file)
    _RUN[0] += 1
    ids = [s + f"~{_RUN[0]}" for s in case["ids"]]
    if case.get("filepid"):
        ids[1] = common.write_file(os.path.join(work, f"pid-as-path~{_RUN[0]}"), b"some file the pid happens to name\n")
        ctx.classify("pid-names-an-existing-file")
    fmts = case["fmts"]
    X, Y = [common.make_content(c) for c in case["contents"]]
    if X == Y:
        Y = Y + b"!"
    d0, d1 = b"<doc0/>", b"<doc-default-namespace/>" * 400
    files = [common.write_file(os.path.join(work, n), b) for n, b in
             (("x", X), ("y", Y), ("d0", d0), ("d1", d1))]
    cfgs = [Cfg.from_json(c) for c in case["cfgs"]]
    roots = [os.path.join(work, f"store{i}") for i in range(2)]
    cwd0 = os.getcwd()
    if case.get("relative_root"):
        os.chdir(work)
        roots = [f"rel store {i}" for i in range(2)]
        ctx.classify("relative-store-path")
    if case.get("int_as_str"):
        ctx.classify("depth-and-width-given-as-strings")
    try:
        _run_scripts(case, ctx, cfgs, roots, ids, fmts, files)
    finally:
        os.chdir(cwd0)
    roots = [os.path.join(work, r) for r in roots]
    _judge_trees(case, ctx, cfgs, roots, ids, fmts, X, Y, d0, d1)


def _run_scripts(case, ctx, cfgs, roots, ids, fmts, files):
    for i in case["order"]:
        cfg, root = cfgs[i], roots[i]
        ias = bool(case.get("int_as_str"))
        o = call(common.make_store, root, cfg, int_as_str=ias)
        if not is_ok(o):
            if o[1] == "RuntimeError" and "harness" in o[2]:
                raise o[3]
            ctx.violation("store-creation-failed", f"cfg {cfg.to_json()}: creating / opening the store raised {o[1]}: {o[2][:200]}",
                          {"err": o[1]})
            continue
        outs = _script(lambda: common.make_store(root, cfg, int_as_str=ias), ids, fmts, files)
        bad = [(n, o[1], o[2][:120]) for n, o in enumerate(outs) if not is_ok(o)]
        if bad:
            ctx.violation("script-call-failed", f"cfg {cfg.to_json()} ids={[repr(s)[:40] for s in ids]}: {bad[:2]}",
                          {"err": bad[0][1]})


def _judge_trees(case, ctx, cfgs, roots, ids, fmts, X, Y, d0, d1):
    for i in (0, 1):
        cfg, root = cfgs[i], roots[i]
        exp = _expected(cfg, ids, fmts, X, Y, d0, d1)
        got = {}
        for dp, dn, fn in os.walk(root):
            for f in fn:
                p = os.path.join(dp, f)
                rel = os.path.relpath(p, root)
                if rel == "hashstore.yaml":
                    continue
                got[rel] = open(p, "rb").read()
        where = f"store #{i} cfg={cfg.to_json()} (other store cfg={cfgs[1 - i].to_json()}), ids={[repr(s)[:40] for s in ids]}"
        missing = sorted(set(exp) - set(got))
        extra = sorted(set(got) - set(exp))
        if missing or extra:
            ctx.violation("layout-paths", f"{where}: missing {missing[:3]} unexpected {extra[:3]}",
                          {"missing": len(missing) > 0, "extra": len(extra) > 0})
        for rel, want in exp.items():
            b = got[rel]
            if isinstance(want, tuple):
                text = b.decode("utf-8", "replace")
                lines = text.split("\n")
                if not text.endswith("\n") or sorted(lines[:-1]) != want[1]:
                    ctx.violation("cid-list-format", f"{where}: {rel} holds {text[:200]!r}, expected the lines "
                                  f"{want[1]} each newline-terminated", {})
            elif b != want:
                ctx.violation("file-content", f"{where}: {rel} holds {seq._short(b)}, expected {seq._short(want)}", {})
        y = call(lambda: yaml.safe_load(open(os.path.join(root, "hashstore.yaml"), encoding="utf-8")))
        wanty = {"store_depth": cfg.depth, "store_width": cfg.width, "store_algorithm": cfg.algo,
                 "store_metadata_namespace": cfg.ns}
        if not is_ok(y) or not isinstance(y[1], dict) or any(y[1].get(k) != v for k, v in wanty.items()) \
                or y[1].get("store_default_algo_list") != ["MD5", "SHA-1", "SHA-256", "SHA-384", "SHA-512"]:
            ctx.violation("yaml-contents", f"{where}: hashstore.yaml parses to {y[1] if is_ok(y) else y[1:3]}", {})
        ctx.classify(f"algo={cfg.algo}")
        ctx.classify(f"depth*width={cfg.depth * cfg.width}")
    if any((c.depth, c.width, c.algo) != (3, 2, "SHA-256") for c in cfgs):
        shapes = sorted(set(sum((c18._shape(s) for s in ids + fmts), [])))
        ctx.nontrivial([case["cfgs"], shapes, case["order"]])
        ctx.sample({"cfgs": case["cfgs"], "ids": [repr(s)[:50] for s in ids], "fmts": [repr(s)[:30] for s in fmts],
                    "content_sizes": [len(X), len(Y)]})
