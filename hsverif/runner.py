"""Runner: shards a property's generated search over worker processes, merges what they covered
into the evidence file, turns a shrunk failure into a replay file and a VIOLATION line, and
handles known findings (section 2.9 of DESIGN.md)."""
import hashlib
import importlib
import json
import os
import subprocess
import sys
import time
import traceback

from . import common, cov

KNOWN_FILE = os.path.join(common.VERIF_DIR, "known_findings.json")
REPLAY_DIR = os.path.join(common.VERIF_DIR, "replays")
# evidence describes runs against /repo itself; runs against a scratch copy (HSVERIF_REPO_SRC) write elsewhere
EVIDENCE_DIR = os.path.join(common.VERIF_DIR, "evidence") if not os.environ.get("HSVERIF_REPO_SRC") \
    else os.path.join("/tmp", "hsverif-scratch-evidence")
PROP_IDS = ["C%02d" % i for i in range(1, 21)]
# thorough tier: an additional coverage-guided campaign (atheris / libFuzzer driving the property's own Hypothesis strategy)
FUZZ_PROPS = {"C03", "C04", "C05", "C06", "C11", "C17", "C19"}
FUZZ_RUNS_PER_SHARD = int(os.environ.get("HSVERIF_FUZZ_RUNS") or 12000)
FUZZ_SECONDS = float(os.environ.get("HSVERIF_FUZZ_SECONDS") or 420)


class Violation(Exception):
    def __init__(self, kind, detail, sig=None):
        super().__init__(f"{kind}: {detail}")
        self.kind, self.detail, self.sig = kind, detail, dict(sig or {}, kind=kind)


class HarnessError(Exception):
    pass


def load_prop(pid):
    return importlib.import_module(f"hsverif.props.{pid.lower()}")


def load_known(pid=None):
    try:
        with open(KNOWN_FILE, encoding="utf-8") as f:
            ents = json.load(f)
    except FileNotFoundError:
        return []
    return [e for e in ents if pid is None or e.get("property") == pid]


def sig_matches(entry_sig, sig):
    """Every field of the known-finding signature must match; '<field>__contains' = list subset."""
    for k, v in entry_sig.items():
        if k.endswith("__contains"):
            have = sig.get(k[:-10]) or []
            if not all(x in have for x in v):
                return False
        elif sig.get(k) != v:
            return False
    return True


def jkey(obj):
    return hashlib.sha1(json.dumps(obj, sort_keys=True, default=str).encode()).hexdigest()[:16]


class Ctx:
    """Per-process collection of coverage facts + known-finding filter."""

    def __init__(self, prop_id, tier="quick", max_samples=4):
        self.prop_id, self.tier = prop_id, tier
        self.evaluations = 0
        self.keys = set()
        self.classes = {}
        self.samples = []
        self._sample_keys = set()
        self.max_samples = max_samples
        self.excluded = {}
        self.known = [e for e in load_known(prop_id) if e.get("status") == "finding"]
        self.case_dirs = []
        self.cleanups = []
        self.last_case = None
        self.t_first_failure = None
        self.failing_key = None
        self.quiet = False
        self.collected = {}

    # coverage facts
    def count(self, n=1):
        self.evaluations += n

    def classify(self, label, n=1):
        self.classes[label] = self.classes.get(label, 0) + n

    def nontrivial(self, key_obj):
        self.keys.add(jkey(key_obj))

    def sample(self, obj, force=False):
        """Keep a few spread-out, distinct samples (the first cases Hypothesis draws are minimal)."""
        k = jkey(obj)
        if k in self._sample_keys:
            return
        thresholds = [1, 8, 30, 80, 200, 500]
        if force or (len(self.samples) < len(thresholds)
                     and self.evaluations >= thresholds[len(self.samples)]):
            self._sample_keys.add(k)
            self.samples.append(obj)

    # scratch directories that live as long as the case
    def scratch(self, prefix="c"):
        d = common.fresh_dir(prefix)
        self.case_dirs.append(d)
        return d

    def end_case(self):
        for fn in reversed(self.cleanups):
            try:
                fn()
            except Exception:
                pass
        self.cleanups = []
        for d in self.case_dirs:
            common.rmtree(d)
        self.case_dirs = []

    # verdicts
    def violation(self, kind, detail, sig=None):
        """Report a violation: counted and skipped when it matches a known finding, raised
        otherwise."""
        v = Violation(kind, detail, sig)
        if os.environ.get("HSVERIF_COLLECT"):
            # diagnosis mode: bucket every violation by signature and keep searching
            k = json.dumps(v.sig, sort_keys=True)
            if k not in self.collected:
                self.collected[k] = str(detail)[:700]
            self.classify("COLLECTED " + k)
            return v
        for e in self.known:
            if sig_matches(e.get("signature", {}), v.sig):
                self.excluded[e["id"]] = self.excluded.get(e["id"], 0) + 1
                return v
        raise v

    def result(self):
        return {"evaluations": self.evaluations, "keys": sorted(self.keys), "classes": self.classes,
                "samples": self.samples, "excluded": self.excluded, "collected": self.collected}


# -------------------------------------------------------------------------------------------
# worker

def _fresh_case():
    """Before every case: primitives created by the code under test are shims again (a previous case may have switched to real
    ones), and the module under test is re-executed so that its process-wide state is empty."""
    from . import sched
    sched.install_dispatch()
    sched.set_mode("shim")
    common.cold_module()


def mix_seed(seed, shard, prop_id):
    h = hashlib.sha256(f"{seed}/{shard}/{prop_id}".encode()).digest()
    return int.from_bytes(h[:6], "big")


def run_hypothesis(mod, ctx, strategy, n_examples, seed, shrink_budget=90.0):
    """Drive mod.run_case over generated cases.  Returns (violation, minimal_case) or None."""
    import hypothesis
    from hypothesis import HealthCheck, Phase, given, settings

    state = {"fail_t": None, "best": None, "best_key": None}

    def body(case):
        k = jkey(case)
        if state["fail_t"] is not None and time.time() - state["fail_t"] > shrink_budget \
                and k != state["best_key"]:
            return  # shrinking budget used up: let the shrinker stop at the best case so far
        ctx.last_case = case
        try:
            ctx.count()
            _fresh_case()   # every case starts from empty process-wide state: a run is a pure function of its case
            mod.run_case(case, ctx)
        except Violation as v:
            if state["fail_t"] is None:
                state["fail_t"] = time.time()
            state["best"], state["best_key"] = (v, case), k
            raise
        finally:
            ctx.end_case()

    test = given(strategy)(body)
    test = hypothesis.seed(seed)(test)
    test = settings(max_examples=n_examples, database=None, deadline=None, derandomize=False,
                    report_multiple_bugs=False, suppress_health_check=list(HealthCheck),
                    phases=(Phase.generate, Phase.shrink))(test)
    try:
        test()
    except Violation:
        return state["best"]
    except hypothesis.errors.Flaky as e:  # the failure did not reproduce: report best known case
        if state["best"]:
            return state["best"]
        raise HarnessError(f"flaky without violation: {e}")
    return None


def ddmin_ops(mod, prop_id, tier, case, vio, budget=25.0):
    """Delta-debug the history of a failing case ourselves (Hypothesis' shrinker has a wall budget here, and histories
    are drawn with a minimum length so that long ones are common): drop chunks of case["ops"] while the SAME kind of
    violation (same signature) still occurs.  Returns (violation, case)."""
    ops = case.get("ops") if isinstance(case, dict) else None
    if not isinstance(ops, list) or len(ops) < 2:
        return vio, case
    t_end = time.time() + budget
    want = json.dumps(vio.sig, sort_keys=True, default=str)

    def fails(cand):
        ctx = Ctx(prop_id, tier)
        try:
            _fresh_case()
            mod.run_case(cand, ctx)
        except Violation as v:
            return v if json.dumps(v.sig, sort_keys=True, default=str) == want else None
        except BaseException:   # noqa - a candidate the harness cannot run is simply not kept
            return None
        finally:
            ctx.end_case()
        return None

    best_v, best = vio, case
    n = 2
    while len(best["ops"]) >= 2 and time.time() < t_end:
        cur = best["ops"]
        size = max(1, len(cur) // n)
        removed = False
        for i in range(0, len(cur), size):
            if time.time() >= t_end:
                break
            cand = dict(best, ops=cur[:i] + cur[i + size:])
            if not cand["ops"]:
                continue
            v = fails(cand)
            if v is not None:
                best_v, best, removed = v, cand, True
                n = max(n - 1, 2)
                break
        if not removed:
            if size == 1:
                break
            n = min(len(cur), n * 2)
    return best_v, best


def _die_with_parent():
    """Workers die (with their whole process group: forked children, manager servers of the code under
    test) when the orchestrator dies or asks them to."""
    import ctypes
    import signal

    def _term(*a):
        try:
            os.killpg(os.getpgrp(), signal.SIGKILL)
        finally:
            os._exit(3)
    signal.signal(signal.SIGTERM, _term)
    # the handler must NOT be inherited by forked children (manager servers of the code under test, forked
    # workers of C16): multiprocessing terminate()s a slow manager with SIGTERM, which would otherwise kill
    # the whole worker group and lose the shard's result
    os.register_at_fork(after_in_child=lambda: signal.signal(signal.SIGTERM, signal.SIG_DFL))
    try:
        ctypes.CDLL("libc.so.6", use_errno=True).prctl(1, signal.SIGTERM)   # PR_SET_PDEATHSIG
    except Exception:
        pass
    if os.getppid() == 1:
        _term()


def worker_main(prop_id, tier, seed, shard, nshards, out_path):
    if os.getpgrp() == os.getpid():
        _die_with_parent()
    t0 = time.time()
    res = {"violation": None, "error": None}
    ctx = Ctx(prop_id, tier)
    cov.start()
    try:
        mod = load_prop(prop_id)
        found = None
        # 1. enumerated part (seed independent), split round-robin over the shards
        enum = getattr(mod, "enumerate_cases", None)
        if enum is not None:
            cases = list(enum(tier))
            cost = getattr(mod, "case_cost", None)
            if cost is not None:   # longest-processing-time-first dealing keeps the shards balanced
                cases.sort(key=lambda c: -cost(c))
            for i, case in enumerate(cases):
                if i % nshards != shard:
                    continue
                ctx.last_case = case
                try:
                    ctx.count()
                    _fresh_case()
                    mod.run_case(case, ctx)
                except Violation as v:
                    found = (v, case)
                    break
                finally:
                    ctx.end_case()
        # 2. generated part
        if found is None and hasattr(mod, "strategy"):
            n_total = mod.examples(tier)
            n = max(1, n_total // nshards)
            found = run_hypothesis(mod, ctx, mod.strategy(tier), n, mix_seed(seed, shard, prop_id),
                                   shrink_budget=getattr(mod, "SHRINK_BUDGET", 90.0))
        if found is not None:
            v, case = found
            try:
                v, case = ddmin_ops(mod, prop_id, tier, case, v)
            except BaseException:  # noqa - minimisation is best effort
                pass
            import locale as _loc
            res["violation"] = {"kind": v.kind, "detail": v.detail, "sig": v.sig, "case": case,
                                "locale_encoding": _loc.getpreferredencoding(False),
                                "loglevel": os.environ.get("HSVERIF_LOGLEVEL") or "off",
                                "scratch_style": os.environ.get("HSVERIF_SCRATCH_STYLE") or "plain",
                                "optimize": sys.flags.optimize}
    except BaseException as e:  # noqa
        tb = "".join(traceback.format_exception(type(e), e, e.__traceback__))
        res["error"] = tb[-4000:] if not os.environ.get("HSVERIF_TB_HEAD") else tb[:3000] + "\n[...]\n" + tb[-1500:]
    res.update(ctx.result())
    res["wall"] = time.time() - t0
    import locale
    res["locale_encoding"] = locale.getpreferredencoding(False) + ("+DEBUG-logging" if os.environ.get("HSVERIF_LOGLEVEL") == "DEBUG" else "") + \
        ("+mixed-case-paths" if os.environ.get("HSVERIF_SCRATCH_STYLE") == "mixed" else "") + ("+python-O" if sys.flags.optimize else "")
    with open(out_path + ".tmp", "w", encoding="utf-8") as f:
        json.dump(res, f, default=str)
    os.replace(out_path + ".tmp", out_path)
    common.cleanup_scratch()
    cov.dump()
    # the result is on disk: leave without joining whatever threads the code under test may have started and never stopped
    # (a helper thread pool owned by a store would keep a normal interpreter exit waiting for ever)
    sys.stdout.flush()
    sys.stderr.flush()
    os._exit(0)


# -------------------------------------------------------------------------------------------
# replay

def replay_case(prop_id, case, tier="quick", exclude=None):
    """Run one literal case without Hypothesis.  Returns the Violation or None.  `exclude` = known
    finding entries that stay excluded (used when replaying one known finding among several)."""
    mod = load_prop(prop_id)
    ctx = Ctx(prop_id, tier)
    ctx.known = list(exclude or [])  # a plain replay reports everything
    try:
        _fresh_case()
        mod.run_case(case, ctx)
    except Violation as v:
        return v
    finally:
        ctx.end_case()
    return None


def write_replay(prop_id, vio):
    os.makedirs(REPLAY_DIR, exist_ok=True)
    body = {"property": prop_id, "kind": vio["kind"], "detail": vio["detail"], "sig": vio["sig"],
            "case": vio["case"], "locale_encoding": vio.get("locale_encoding", "UTF-8"), "loglevel": vio.get("loglevel", "off"),
            "scratch_style": vio.get("scratch_style", "plain"), "optimize": vio.get("optimize", 0),
            "how": f"/venv/bin/python /verif/check.py {prop_id} --replay <this file>"}
    name = f"{prop_id}-{jkey(vio['case'])}.json"
    path = os.path.join(REPLAY_DIR, name)
    with open(path, "w", encoding="utf-8") as f:
        json.dump(body, f, indent=1, default=str)
    return path


# -------------------------------------------------------------------------------------------
# orchestrator

def write_evidence(prop_id, mod, tier, seed, merged, wall, violations, extra=None):
    os.makedirs(EVIDENCE_DIR, exist_ok=True)
    cov = {"evaluations": merged["evaluations"], "distinct_nontrivial": len(merged["keys"]),
           "rule": mod.RULE, "samples": merged["samples"][:6], "classes": merged["classes"],
           "excluded_known": merged["excluded"], "shards": merged["shards"]}
    if getattr(mod, "EXHAUSTIVE_NOTE", None):
        cov["exhaustive_part"] = mod.EXHAUSTIVE_NOTE
    if extra:
        cov.update(extra)
    ev = {"property_id": prop_id, "tier": tier, "seed": seed, "level": mod.LEVEL, "coverage": cov,
          "assumptions": list(getattr(mod, "ASSUMPTIONS", [])), "wall_s": round(wall, 2),
          "violations": violations}
    path = os.path.join(EVIDENCE_DIR, f"{prop_id}.json")
    with open(path + ".tmp", "w", encoding="utf-8") as f:
        json.dump(ev, f, indent=1, default=str)
    os.replace(path + ".tmp", path)
    return path


def _group_is_ours(pgid):
    """True if some live process of process group `pgid` carries THIS orchestrator's marker in its environment.  Once a
    worker has been reaped its pid - which is also its group id - can be re-used by an unrelated session leader (another
    check running at the same time): never send that group a signal."""
    marker = f"HSVERIF_ORCH={os.getpid()}".encode()
    try:
        pids = [d for d in os.listdir("/proc") if d.isdigit()]
    except OSError:
        return True
    found = False
    for d in pids:
        try:
            with open(f"/proc/{d}/stat", "rb") as f:
                fields = f.read().rsplit(b")", 1)[1].split()
            if int(fields[2]) != pgid:
                continue
            found = True
            with open(f"/proc/{d}/environ", "rb") as f:
                if marker in f.read().split(b"\0"):
                    return True
        except (OSError, IndexError, ValueError):
            continue
    return False if found else False


def _kill_group(p):
    import signal
    if p.poll() is not None and not _group_is_ours(p.pid):
        return      # reaped, and whatever owns that group id now (if anything) is not ours
    try:
        os.killpg(p.pid, signal.SIGKILL)
    except (ProcessLookupError, PermissionError, OSError):
        pass


def orchestrate(prop_id, tier, seed, nshards=None, budget=None):
    t0 = time.time()
    mod = load_prop(prop_id)
    nshards = nshards or min(16, os.cpu_count() or 4, getattr(mod, "MAX_SHARDS", 16))
    base = common.scratch_base()

    # known findings / fixed entries first: replay them
    status_lines = []
    for e in load_known(prop_id):
        rp = os.path.join(common.VERIF_DIR, e["replay"]) if e.get("replay") else None
        if not rp or not os.path.isfile(rp):
            continue
        with open(rp, encoding="utf-8") as f:
            body = json.load(f)
        others = [o for o in load_known(prop_id) if o.get("status") == "finding" and o is not e
                  and o.get("id") != e.get("id")]
        v = replay_case(prop_id, body["case"], tier, exclude=others)
        if e.get("status") == "finding":
            if v is not None and sig_matches(e.get("signature", {}), v.sig):
                status_lines.append(f"KNOWN-FINDING: property={prop_id} {e['id']}: {e['what']}")
            elif v is not None:
                print(f"VIOLATION property={prop_id} replay={rp}")
                print(f"  (replay of known finding {e['id']} now fails differently: {v})")
                return 1
            else:
                status_lines.append(f"note: known finding {e['id']} no longer reproduces "
                                    f"(property={prop_id}); its entry can be marked fixed")
        else:  # fixed: plain regression case, suppresses nothing
            if v is not None:
                print(f"VIOLATION property={prop_id} replay={rp}")
                print(f"  (regression of fixed finding {e['id']}: {v})")
                return 1
    for l in status_lines:
        print(l)

    procs = []
    import signal

    def _on_signal(signum, frame):
        for _, _, p in procs:
            _kill_group(p)
        common.cleanup_scratch()
        os._exit(2)
    signal.signal(signal.SIGTERM, _on_signal)
    signal.signal(signal.SIGINT, _on_signal)
    env = dict(os.environ, PYTHONHASHSEED="0", HSVERIF_SCRATCH=base, HSVERIF_ORCH=str(os.getpid()))
    # every second shard runs under a NON-UTF-8 locale (preferred encoding ASCII): text files the store opens without an
    # explicit encoding, or strings it encodes with the locale's codec, then differ from the published layout as soon as an
    # identifier is not ASCII.  stdio stays UTF-8 so that reports can be printed.
    env_ascii = dict(env, LC_ALL="C", LANG="C", PYTHONCOERCECLOCALE="0", PYTHONUTF8="0", PYTHONIOENCODING="utf-8")
    for sh in range(nshards):
        out = os.path.join(base, f"res{sh}.json")
        cmd = [sys.executable, os.path.join(common.VERIF_DIR, "check.py"), prop_id, "--tier", tier,
               "--seed", str(seed), "--worker", str(sh), str(nshards), out]
        # own session per worker: the whole process group (forked children, manager servers of the
        # code under test) can be killed with it
        e = dict(env_ascii if sh % 2 else env)
        if sh % 4 >= 2:
            e["HSVERIF_LOGLEVEL"] = "DEBUG"      # (shards 2, 3, 6, 7, ...: the store's DEBUG logging is enabled)
        if sh % 8 >= 4:
            e["HSVERIF_SCRATCH_STYLE"] = "mixed"  # (shards 4-7, 12-15: store paths with upper-case letters, '.', '+')
        if sh % 16 in (1, 6, 11):
            e["PYTHONOPTIMIZE"] = "1"             # (three shards: python -O - assert statements of the code under test do not execute)
        procs.append((sh, out, subprocess.Popen(cmd, env=e, cwd=common.VERIF_DIR, start_new_session=True)))
    results, violation, errors = {}, None, []
    pending = dict((sh, (out, p)) for sh, out, p in procs)
    max_wall = float(os.environ.get("HSVERIF_MAX_WALL") or (1800 if tier == "quick" else 6 * 3600))
    while pending:
        if time.time() - t0 > max_wall:   # a hang is a harness problem (exit 2), never a verdict
            for sh, (out, p) in pending.items():
                _kill_group(p)
            sys.stderr.write(f"[harness] {prop_id}: workers {sorted(pending)} exceeded {max_wall:.0f}s and were killed\n")
            return 2
        for sh in list(pending):
            out, p = pending[sh]
            rc = p.poll()
            if rc is None:
                continue
            del pending[sh]
            if os.path.isfile(out):
                with open(out, encoding="utf-8") as f:
                    r = json.load(f)
                results[sh] = r
                if r.get("error"):
                    errors.append((sh, r["error"]))
                if r.get("violation") and violation is None:
                    violation = r["violation"]
            else:
                errors.append((sh, f"worker exited {rc} without a result"))
        if violation is not None or errors:
            for sh, (out, p) in pending.items():
                _kill_group(p)
            for sh, (out, p) in pending.items():
                p.wait()
            pending = {}
            break
        if pending:
            time.sleep(0.05)
    for sh, out, p in procs:   # stragglers (children of finished workers)
        _kill_group(p)
    merged = {"evaluations": 0, "keys": set(), "classes": {}, "samples": [], "excluded": {},
              "shards": nshards}
    encs = {}
    for r in results.values():
        e = r.get("locale_encoding", "?")
        encs[e] = encs.get(e, 0) + 1
    merged["classes"].update({f"shards-with-environment={k}": v for k, v in encs.items()})
    for sh in sorted(results):
        r = results[sh]
        merged["evaluations"] += r.get("evaluations", 0)
        merged["keys"].update(r.get("keys", []))
        for k, v in r.get("classes", {}).items():
            merged["classes"][k] = merged["classes"].get(k, 0) + v
        for k, v in r.get("excluded", {}).items():
            merged["excluded"][k] = merged["excluded"].get(k, 0) + v
    collected = {}
    for sh in sorted(results):
        for k, v in results[sh].get("collected", {}).items():
            collected.setdefault(k, v)
    if collected:
        print(f"[diagnosis mode] {len(collected)} distinct violation signatures:")
        for k, v in sorted(collected.items()):
            print("  *", k, "::", v[:500])
    # interleave samples from shards
    for i in range(6):
        for sh in sorted(results):
            s = results[sh].get("samples", [])
            if i < len(s) and len(merged["samples"]) < 6:
                merged["samples"].append(s[i])
    extra = None
    if tier == "thorough" and prop_id in FUZZ_PROPS and violation is None and not errors:
        extra, fviol, ferrors = fuzz_campaign(prop_id, tier, seed, nshards, base, env, merged)
        violation = fviol
        errors = ferrors
    wall = time.time() - t0
    if errors and violation is None:
        for sh, e in errors[:2]:
            sys.stderr.write(f"[harness error in shard {sh}]\n{e}\n")
        return 2
    write_evidence(prop_id, mod, tier, seed, merged, wall, 1 if violation else 0, extra=extra)
    if violation is not None:
        path = write_replay(prop_id, violation)
        print(f"VIOLATION property={prop_id} replay={path}")
        print(f"  {violation['kind']}: {str(violation['detail'])[:600]}")
        return 1
    print(f"OK property={prop_id} tier={tier} seed={seed} evaluations={merged['evaluations']} "
          f"distinct_nontrivial={len(merged['keys'])} excluded_known={sum(merged['excluded'].values())} "
          f"wall={wall:.1f}s")
    return 0


def fuzz_campaign(prop_id, tier, seed, nshards, base, env, merged):
    """Coverage-guided campaign after the Hypothesis part (thorough tier).  Returns (evidence extra, violation, errors)."""
    from . import fuzz
    if not fuzz.available():
        return {"coverage_guided_campaign": "skipped: atheris not importable (setup_cmd installs it into /verif/.deps)"}, None, []
    procs = []
    for sh in range(nshards):
        out = os.path.join(base, f"fuzz{sh}.json")
        cmd = [sys.executable, os.path.join(common.VERIF_DIR, "check.py"), prop_id, "--tier", tier, "--seed", str(seed),
               "--fuzz-worker", str(sh), str(nshards), out]
        procs.append((sh, out, subprocess.Popen(cmd, env=env, cwd=common.VERIF_DIR, start_new_session=True,
                                                stdout=subprocess.DEVNULL, stderr=subprocess.DEVNULL)))
    t_end = time.time() + FUZZ_SECONDS + 240
    violation, errors, execs, evals = None, [], 0, 0
    for sh, out, p in procs:
        try:
            p.wait(timeout=max(1, t_end - time.time()))
        except subprocess.TimeoutExpired:
            _kill_group(p)
            errors.append((sh, "fuzz worker exceeded its time limit"))
            continue
        if not os.path.isfile(out):
            errors.append((sh, f"fuzz worker exited {p.returncode} without a result"))
            continue
        with open(out, encoding="utf-8") as f:
            r = json.load(f)
        execs += r.get("fuzz_execs", 0)
        evals += r.get("evaluations", 0)
        merged["evaluations"] += r.get("evaluations", 0)
        merged["keys"].update(r.get("keys", []))
        for k, v in r.get("excluded", {}).items():
            merged["excluded"][k] = merged["excluded"].get(k, 0) + v
        if r.get("error"):
            errors.append((sh, r["error"]))
        if r.get("violation") and violation is None:
            violation = r["violation"]
    for sh, out, p in procs:
        _kill_group(p)
    extra = {"coverage_guided_campaign": {"engine": "atheris 3.1 (libFuzzer) mutating the input buffer of the property's Hypothesis "
                                                    "strategy (hypothesis fuzz_one_input); hashstore/filehashstore.py instrumented",
                                          "shards": nshards, "libfuzzer_executions": execs, "cases_run_by_the_oracle": evals}}
    return extra, violation, errors


def main(argv=None):
    import argparse
    ap = argparse.ArgumentParser()
    ap.add_argument("prop")
    ap.add_argument("--tier", default=os.environ.get("VERIF_TIER") or "quick")
    ap.add_argument("--seed", type=int, default=None)
    ap.add_argument("--replay")
    ap.add_argument("--shards", type=int)
    ap.add_argument("--worker", nargs=3)
    ap.add_argument("--fuzz-worker", nargs=3)
    a = ap.parse_args(argv)
    seed = a.seed if a.seed is not None else int(os.environ.get("VERIF_SEED") or 1)
    if a.tier not in ("quick", "thorough"):
        a.tier = "quick"
    if a.worker:
        worker_main(a.prop, a.tier, seed, int(a.worker[0]), int(a.worker[1]), a.worker[2])
        return 0
    if a.fuzz_worker:
        from . import fuzz
        fuzz.available()
        if os.getpgrp() == os.getpid():
            _die_with_parent()
        fuzz.worker_main(a.prop, a.tier, seed, int(a.fuzz_worker[0]), int(a.fuzz_worker[1]), a.fuzz_worker[2],
                         FUZZ_RUNS_PER_SHARD, FUZZ_SECONDS)
        return 0
    if os.environ.get("PYTHONHASHSEED") != "0":
        os.environ["PYTHONHASHSEED"] = "0"
        os.execv(sys.executable, [sys.executable] + sys.argv)
    try:
        if a.replay:
            with open(a.replay, encoding="utf-8") as f:
                body = json.load(f)
            import locale
            want = str(body.get("locale_encoding", "UTF-8"))
            if not os.environ.get("HSVERIF_REPLAY_ENV_SET"):
                # the failure was found by a shard with a particular environment (non-UTF-8 locale, DEBUG logging): replay under the same
                upd = {}
                if not want.upper().startswith("UTF") and locale.getpreferredencoding(False).upper().startswith("UTF"):
                    upd.update(LC_ALL="C", LANG="C", PYTHONCOERCECLOCALE="0", PYTHONUTF8="0", PYTHONIOENCODING="utf-8")
                if body.get("loglevel") == "DEBUG" and os.environ.get("HSVERIF_LOGLEVEL") != "DEBUG":
                    upd["HSVERIF_LOGLEVEL"] = "DEBUG"
                if body.get("scratch_style") == "mixed" and os.environ.get("HSVERIF_SCRATCH_STYLE") != "mixed":
                    upd["HSVERIF_SCRATCH_STYLE"] = "mixed"
                if body.get("optimize") and not sys.flags.optimize:
                    upd["PYTHONOPTIMIZE"] = "1"
                if upd:
                    os.environ.update(upd, HSVERIF_REPLAY_ENV_SET="1")
                    os.execv(sys.executable, [sys.executable] + sys.argv)
            v = replay_case(a.prop, body["case"], a.tier)
            if v is not None:
                print(f"VIOLATION property={a.prop} replay={a.replay}")
                print(f"  {v}")
                return 1
            print(f"OK replay property={a.prop} {a.replay}: no violation")
            return 0
        return orchestrate(a.prop, a.tier, seed, a.shards)
    except SystemExit:
        raise
    except BaseException:  # noqa
        traceback.print_exc()
        return 2
    finally:
        common.cleanup_scratch()
