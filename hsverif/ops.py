"""Operation strategies for generated histories (alphabet profiles, section 2.2 of DESIGN.md)."""
import hashlib

from hypothesis import strategies as st

from . import common, gen

NEVER_CIDS = {  # digests of strings never stored by any history
    a: hashlib.new(h, b"hsverif-never-stored").hexdigest() for a, h in common.STORE_ALGOS.items()
}
KINDS = ["str", "path", "file", "bytesio", "bufreader", "gzip", "rwfile", "relpath", "shortreads", "linkpath"]


def store_op(pids, n_contents, allow_none=True, validation=True, kinds=("str",), algos=None,
             wrong_bias=0.3):
    pid = st.sampled_from(pids + ([None] if allow_none else []))
    base = {"op": st.just("store"), "pid": pid, "c": st.integers(0, n_contents - 1),
            "kind": st.sampled_from(list(kinds))}
    if not validation:
        return st.fixed_dictionaries(base)
    algo = gen.algo_spelling(algos)
    opt = {
        "add": st.one_of(st.none(), st.none(), algo),
        "cks": st.sampled_from(["none", "none", "right", "right", "upper", "wrong"]),
        "cks_algo": algo,
        "size": st.sampled_from(["none", "none", "right", "right", "wrong"]),
        "dsize": st.sampled_from([-1, 1, 7, "blk8192", "blk4096"]),
        "flip": st.integers(0, 31),
        "offset": st.integers(0, 9000),
    }
    return st.fixed_dictionaries(base, optional=None).flatmap(
        lambda b: st.fixed_dictionaries(opt).map(lambda o: dict(b, **o)))


def cid_spec(n_contents, cfg_algo="SHA-256", never=True):
    specs = [st.integers(0, n_contents - 1).map(lambda i: {"of": i})] * 3
    if never:
        specs.append(st.just({"raw": NEVER_CIDS[cfg_algo]}))
        # a never-stored cid that is a case variant of a real one
        specs.append(st.integers(0, n_contents - 1).map(lambda i: {"of": i, "upper": True}))
    return st.one_of(*specs)


def tag_op(pids, n_contents, cfg_algo="SHA-256", never=True):
    return st.fixed_dictionaries({"op": st.just("tag"), "pid": st.sampled_from(pids),
                                  "cid": cid_spec(n_contents, cfg_algo, never)})


def delete_op(pids):
    return st.fixed_dictionaries({"op": st.just("delete"), "pid": st.sampled_from(pids)})


def dii_op(n_contents, algos=None):
    return st.fixed_dictionaries({
        "op": st.just("dii"), "c": st.integers(0, n_contents - 1),
        "cks": st.sampled_from(["right", "upper", "wrong", "wrong"]),
        "cks_algo": gen.algo_spelling(algos),
        "size": st.sampled_from(["right", "right", "none", "wrong"]),
        "dsize": st.sampled_from([-1, 1, 7]), "flip": st.integers(0, 31)})


def smeta_op(pids, formats, n_docs, kinds=("str", "file")):
    return st.fixed_dictionaries({"op": st.just("smeta"), "pid": st.sampled_from(pids),
                                  "fmt": st.sampled_from(formats), "d": st.integers(0, n_docs - 1),
                                  "kind": st.sampled_from(list(kinds))})


def rmeta_op(pids, formats):
    return st.fixed_dictionaries({"op": st.just("rmeta"), "pid": st.sampled_from(pids),
                                  "fmt": st.sampled_from(formats)})


def dmeta_op(pids, formats):
    return st.fixed_dictionaries({"op": st.just("dmeta"), "pid": st.sampled_from(pids),
                                  "fmt": st.sampled_from(formats + [None])})


def retrieve_op(pids):
    return st.fixed_dictionaries({"op": st.just("retrieve"), "pid": st.sampled_from(pids)})


def hexd_op(pids, algos=None):
    return st.fixed_dictionaries({"op": st.just("hexd"), "pid": st.sampled_from(pids),
                                  "algo": gen.algo_spelling(algos)})


REOPEN = st.sampled_from([{"op": "reopen"}, {"op": "reopen"}, {"op": "reopen", "cold": True}])
# (cold: the module under test is re-executed first, so process-wide in-memory state starts empty - another process)


def decoy_op(pids, fmts=("-",)):
    """store_object(pid, ..) [+ store_metadata] on ANOTHER store of a different algorithm in the same process."""
    return st.fixed_dictionaries({"op": st.just("decoy"), "pid": st.sampled_from(pids), "fmt": st.sampled_from(list(fmts)),
                                  "n": st.integers(0, 3)})


def weighted(*pairs):
    """one_of with integer weights."""
    alts = []
    for w, s in pairs:
        alts.extend([s] * w)
    return st.one_of(*alts)


def on_instances(op_strategy, second=1, of=6):
    """The same operation, occasionally issued through a SECOND store instance opened on the same directory
    (two processes / two handles sharing one store): exposes per-instance state that goes stale."""
    return st.tuples(op_strategy, st.integers(0, of - 1)).map(lambda t: dict(t[0], inst=1) if t[1] < second else t[0])


def history(op, lo, hi):
    """A list of operations whose LENGTH is spread over [lo, hi].  st.lists alone draws geometric lengths (mean about
    lo + 5 whatever hi is: the measured median of a 'up to 30 calls' history was 3); mixing in lists with a higher minimum
    gives the long histories the properties quantify over while Hypothesis can still shrink within each alternative."""
    mid, high = max(lo, (lo + hi) // 2), max(lo, (2 * hi) // 3)
    alts = [st.lists(op, min_size=lo, max_size=hi)]
    if mid > lo:
        alts.append(st.lists(op, min_size=mid, max_size=hi))
    if high > mid:
        alts.append(st.lists(op, min_size=high, max_size=hi))
    return st.one_of(*alts)
