"""E4 - file-system interposer at the Python/OS boundary (no source hooks in /repo).

install() patches, once per process, os.{stat,lstat,rename,replace,remove,unlink,mkdir,rmdir,chmod,
listdir,scandir,open,truncate,link,symlink,utime,access,sendfile,copy_file_range}, builtins.open / io.open
(files opened for writing come back wrapped so that write / writelines / truncate / flush / close are
boundaries too) and fcntl.flock.  The patches are inert unless the calling THREAD has activated a
context; only paths under the context's root are boundaries.  The context's callback runs BEFORE the
real operation and may record, observe the store, yield to a scheduler, raise an injected OSError or
kill the process."""
import builtins
import fcntl
import io
import os
import threading

_real = {}
_tls = threading.local()

PATH_FUNCS = {  # name -> indexes of path arguments
    "stat": (0,), "lstat": (0,), "rename": (0, 1), "replace": (0, 1), "remove": (0,), "unlink": (0,),
    "mkdir": (0,), "rmdir": (0,), "chmod": (0,), "listdir": (0,), "scandir": (0,), "open": (0,),
    "truncate": (0,), "link": (0, 1), "symlink": (0, 1), "utime": (0,), "access": (0,), "statvfs": (0,),
}
# existence questions: os.path.* report a failing stat as "absent"; pathlib's let some errors through, but a store that asks
# "is it there?" through pathlib and maps an OSError to "no" asks the same question - neither is a fault site
_STRICT_STAT_CALLERS = {"getsize", "getmtime", "getatime", "getctime"}
_SWALLOWING_PROBES = {"exists", "isfile", "isdir", "lexists", "islink", "ismount", "is_file", "is_dir", "is_symlink", "is_mount",
                      "is_socket", "is_fifo", "samefile"}
PROBES = {"stat", "lstat", "access", "listdir", "scandir"}   # not fault sites, not mutations
MUTATING = {"rename", "replace", "remove", "unlink", "mkdir", "rmdir", "chmod", "truncate", "link",
            "symlink", "utime", "f.write", "f.writelines", "f.truncate", "f.flush", "f.close",
            "open:w", "os.open:w", "flock", "sendfile"}


class Event:
    __slots__ = ("name", "paths", "mode", "n")

    def __init__(self, name, paths, mode=None, n=None):
        self.name, self.paths, self.mode, self.n = name, paths, mode, n

    @property
    def kind(self):
        """Canonical operation name: open:r / open:w / os.open:w / rename / f.write ..."""
        if self.name in ("open", "os.open"):
            return self.name + (":w" if self.mode == "w" else ":r")
        return self.name

    @property
    def is_probe(self):
        return self.name in PROBES

    @property
    def is_mutating(self):
        return self.kind in MUTATING

    @property
    def dest(self):
        return self.paths[-1] if self.paths else None

    def rel(self, root):
        return [os.path.relpath(p, root) if p.startswith(root) else p for p in self.paths]

    def brief(self, root):
        return f"{self.kind}({', '.join(self.rel(root))})"


class Ctx:
    def __init__(self, root, on_op):
        self.root = os.path.realpath(root)
        self.on_op = on_op
        self.depth = 0
        self.count = 0
        self.enabled = True
        self.read_boundaries = False   # opt-in: files opened for READING come back wrapped (ReadProxy)
        self.extra_read_roots = []     # opt-in: directories OUTSIDE the root whose files, opened for reading, are wrapped too
                                       # (the caller's data files: reads of the SOURCE become scheduling points)

    def under(self, p):
        try:
            if isinstance(p, int):
                return None
            p = os.fspath(p)
            if isinstance(p, bytes):
                p = p.decode()
            ap = os.path.abspath(p)
            if ap == self.root or ap.startswith(self.root + os.sep):
                return ap
        except Exception:
            pass
        return None

    def fire(self, ev):
        """Run the callback for a boundary (never re-entrantly)."""
        self.count += 1
        _tls.depth = getattr(_tls, "depth", 0) + 1
        try:
            self.on_op(ev)
        finally:
            _tls.depth -= 1


def current():
    ctx = getattr(_tls, "ctx", None)
    if ctx is None or getattr(_tls, "depth", 0) > 0 or not ctx.enabled:
        return None
    return ctx


def _wrap_path_func(name, real, idxs):
    def w(*a, **k):
        ctx = current()
        if ctx is None:
            return real(*a, **k)
        if k.get("dir_fd") is not None or k.get("src_dir_fd") is not None:
            return real(*a, **k)
        paths = []
        for i in idxs:
            if i < len(a):
                p = ctx.under(a[i])
                if p:
                    paths.append(p)
        if not paths and name in ("listdir", "scandir") and not a:
            return real(*a, **k)
        if not paths:
            return real(*a, **k)
        mode = None
        nm = name
        if name in ("stat", "lstat"):
            # an EXISTENCE PROBE (os.path.exists / isfile / isdir / islink ...) reports a failing stat as "absent"; every
            # other stat (os.path.getsize, os.stat, Path.stat) lets the error through: a fault site like any other operation
            import sys
            try:
                f = sys._getframe(1)
                # a stat issued by os.path.getsize / getmtime / ... is a SIZE (time) QUERY: its failure always reaches the caller.
                # Every other stat may be somebody's way of asking "is it there?" (os.path.exists, Path.is_file, an own
                # try/except around os.stat) and stays a probe - conservative on purpose: a fault is only injected where the
                # platform certainly reports it
                if f is not None and f.f_code.co_name in _STRICT_STAT_CALLERS and "genericpath" in f.f_code.co_filename:
                    nm = "stat.strict"
            except Exception:
                pass
        if name == "open":
            nm = "os.open"
            flags = a[1] if len(a) > 1 else k.get("flags", 0)
            mode = "w" if flags & (os.O_WRONLY | os.O_RDWR | os.O_CREAT | os.O_TRUNC | os.O_APPEND) else "r"
        ev = Event(nm, paths, mode)
        ctx.fire(ev)
        res = real(*a, **k)
        hook = getattr(ctx, "after_path_op", None)
        if hook is not None and getattr(_tls, "depth", 0) == 0:
            hook(ev)          # may raise: "the operation took effect but its failure was reported" (lost reply)
        if name in ("stat", "lstat"):
            flt = getattr(ctx, "stat_filter", None)
            if flt is not None:
                res = flt(res)
        lo = getattr(ctx, "list_order", None)
        if lo and name == "listdir":
            res = sorted(res, reverse=(lo == "reversed"))      # the order of a directory listing is the file system's choice
        elif lo and name == "scandir":
            res = _OrderedScandir(res, lo == "reversed")
        return res
    w.__name__ = name
    w.__wrapped__ = real
    return w


class _OrderedScandir:
    """os.scandir result with its entries in a chosen order (sorted / reverse-sorted by name)."""

    def __init__(self, it, reverse):
        try:
            self._entries = sorted(it, key=lambda e: e.name, reverse=reverse)
        finally:
            it.close()
        self._i = 0

    def __iter__(self):
        return self

    def __next__(self):
        if self._i >= len(self._entries):
            raise StopIteration
        self._i += 1
        return self._entries[self._i - 1]

    def close(self):
        self._i = len(self._entries)

    def __enter__(self):
        return self

    def __exit__(self, *a):
        self.close()
        return False


class FileProxy:
    """Thin wrapper around a file opened for writing: mutating methods are boundaries."""

    def __init__(self, f, ctx, path):
        object.__setattr__(self, "_f", f)
        object.__setattr__(self, "_ctx", ctx)
        object.__setattr__(self, "_path", path)

    def __getattr__(self, n):
        return getattr(self._f, n)

    def __setattr__(self, n, v):
        setattr(self._f, n, v)

    def __iter__(self):
        return iter(self._f)

    def __next__(self):
        return next(self._f)

    def _fire(self, name, n=None):
        ctx = self._ctx
        if getattr(_tls, "ctx", None) is ctx and getattr(_tls, "depth", 0) == 0 and ctx.enabled:
            ctx.fire(Event(name, [self._path], n=n))

    def __enter__(self):
        self._f.__enter__()
        return self

    def __exit__(self, *a):
        self.close()
        return False

    def write(self, d):
        self._fire("f.write", len(d))
        hook = getattr(self._ctx, "write_hook", None)
        if hook is not None and isinstance(self._f, io.RawIOBase) and len(d) > 1 \
                and getattr(_tls, "ctx", None) is self._ctx:
            # an UNBUFFERED file may legally take fewer bytes than it was given (short write);
            # buffered files retry by themselves, so nothing is simulated for them
            return self._f.write(bytes(d)[:hook(len(d))])
        return self._f.write(d)

    def writelines(self, d):
        d = list(d)
        self._fire("f.writelines", len(d))
        return self._f.writelines(d)

    def truncate(self, *a):
        # truncate() of a buffered file is two system-level steps: write out the buffer, then ftruncate
        self._fire("f.flush")
        self._f.flush()
        self._fire("f.truncate")
        return self._f.truncate(*a)

    def flush(self):
        self._fire("f.flush")
        return self._f.flush()

    def close(self):
        if self._f.closed:
            return None
        try:
            self._fire("f.close")
        except BaseException:
            # an injected failure of close(): the descriptor is still released - and, as with a real failing close, what was
            # still in the user-space buffer (the final flush) is LOST: the file keeps only what had reached the OS
            try:
                fd = self._f.fileno()
                flushed = os.fstat(fd).st_size
                now = os.readlink(f"/proc/self/fd/{fd}")
            except Exception:
                flushed = now = None
            try:
                self._f.close()
            except Exception:
                pass
            try:
                if flushed is not None and now and _real["stat"](now).st_size > flushed:
                    _real["truncate"](now, flushed)
            except Exception:
                pass
            raise
        try:
            return self._f.close()
        finally:
            hook = getattr(self._ctx, "after_close", None)
            if hook is not None:
                hook(self._path)


class ReadProxy:
    """Wrapper around a file opened for reading (only when ctx.read_boundaries): every read is a
    boundary BEFORE the OS call ("f.read") and again when it has returned ("f.read.ret") - the point at
    which CPython re-acquires the GIL, so another thread may well run between the read and whatever
    the caller does with the bytes."""

    def __init__(self, f, ctx, path):
        object.__setattr__(self, "_f", f)
        object.__setattr__(self, "_ctx", ctx)
        object.__setattr__(self, "_path", path)

    def __getattr__(self, n):
        return getattr(self._f, n)

    def __setattr__(self, n, v):
        setattr(self._f, n, v)

    def _fire(self, name):
        ctx = self._ctx
        if getattr(_tls, "ctx", None) is ctx and getattr(_tls, "depth", 0) == 0 and ctx.enabled:
            ctx.fire(Event(name, [self._path]))

    def _around(self, fn, *a):
        self._fire("f.read")
        try:
            return fn(*a)
        finally:
            self._fire("f.read.ret")

    def read(self, *a):
        return self._around(self._f.read, *a)

    def read1(self, *a):
        return self._around(self._f.read1, *a)

    def readinto(self, b):
        return self._around(self._f.readinto, b)

    def readinto1(self, b):
        return self._around(self._f.readinto1, b)

    def readline(self, *a):
        return self._around(self._f.readline, *a)

    def readlines(self, *a):
        return self._around(self._f.readlines, *a)

    def __iter__(self):
        return self

    def __next__(self):
        line = self._around(self._f.readline)
        if not line:
            raise StopIteration
        return line

    def __enter__(self):
        self._f.__enter__()
        return self

    def __exit__(self, *a):
        self._f.close()
        return False


def _open_wrap(real):
    def w(file, mode="r", *a, **k):
        ctx = current()
        if ctx is None:
            return real(file, mode, *a, **k)
        if isinstance(file, int):
            f = real(file, mode, *a, **k)
            if any(c in mode for c in "wax+"):
                try:
                    p = ctx.under(os.readlink(f"/proc/self/fd/{file}"))
                except OSError:
                    p = None
                if p:
                    return FileProxy(f, ctx, p)
            return f
        p = ctx.under(file)
        opener = k.get("opener")
        if p is None and ctx.read_boundaries and ctx.extra_read_roots and not any(c in mode for c in "wax+") \
                and not isinstance(file, int):
            try:
                ap = os.path.abspath(os.fspath(file))
            except TypeError:
                ap = None
            if ap and any(ap == r or ap.startswith(r + os.sep) for r in ctx.extra_read_roots):
                return ReadProxy(real(file, mode, *a, **k), ctx, ap)
        if p is None:
            f = real(file, mode, *a, **k)
            # tempfile.NamedTemporaryFile: path is a directory + opener creating the file
            if opener is not None and any(c in mode for c in "wax+"):
                try:
                    q = ctx.under(os.readlink(f"/proc/self/fd/{f.fileno()}"))
                except (OSError, ValueError):
                    q = None
                if q:
                    return FileProxy(f, ctx, q)
            return f
        writing = any(c in mode for c in "wax+")
        if opener is None:
            ctx.fire(Event("open", [p], "w" if writing else "r"))
            _tls.depth = getattr(_tls, "depth", 0) + 1
            try:
                f = real(file, mode, *a, **k)
            finally:
                _tls.depth -= 1
        else:
            f = real(file, mode, *a, **k)   # the opener's os.open is the boundary
        if writing:
            try:
                q = ctx.under(os.readlink(f"/proc/self/fd/{f.fileno()}")) or p
            except (OSError, ValueError):
                q = p
            return FileProxy(f, ctx, q)
        if ctx.read_boundaries:
            return ReadProxy(f, ctx, p)
        return f
    w.__wrapped__ = real
    return w


class ObserverWouldBlock(BlockingIOError):
    """The harness's own observer (running inside a boundary callback, i.e. while the observed call is suspended
    in the middle of an operation) asked for a file lock the suspended call holds: a real reader would simply wait."""


def _flock_wrap(real):
    def w(fd, op):
        if getattr(_tls, "depth", 0) > 0 and getattr(_tls, "ctx", None) is not None and not (op & fcntl.LOCK_UN):
            # inside a callback: never block the only thread that could ever release the lock
            try:
                return real(fd, op | fcntl.LOCK_NB)
            except BlockingIOError:
                raise ObserverWouldBlock(11, "observer would wait for a file lock held by the suspended call") from None
        ctx = current()
        if ctx is None:
            return real(fd, op)
        try:
            fdn = fd if isinstance(fd, int) else fd.fileno()
            p = ctx.under(os.readlink(f"/proc/self/fd/{fdn}"))
        except Exception:
            p = None
        if p is None:
            return real(fd, op)
        hook = getattr(ctx, "flock_hook", None)
        ctx.fire(Event("flock", [p], n=op))
        if hook is not None:
            return hook(real, fd, op, p)
        return real(fd, op)
    w.__wrapped__ = real
    return w


def _fd_func_wrap(name, real):
    """fd-based writers: os.sendfile / copy_file_range (shutil's fast copy), os.write / pwrite / ftruncate / fsync."""
    def w(*a, **k):
        ctx = current()
        if ctx is None:
            return real(*a, **k)
        try:
            out_fd = a[1] if name == "copy_file_range" else a[0]
            p = ctx.under(os.readlink(f"/proc/self/fd/{out_fd}")) if isinstance(out_fd, int) else None
        except Exception:
            p = None
        if p:
            ev = {"sendfile": "sendfile", "copy_file_range": "sendfile", "write": "f.write", "pwrite": "f.write",
                  "ftruncate": "f.truncate", "fsync": "f.flush"}[name]
            ctx.fire(Event(ev, [p]))
            hook = getattr(ctx, "write_hook", None)
            if hook is not None and name == "write" and len(a) >= 2:
                n = hook(len(a[1]))        # simulate a short write: the OS takes only the first n bytes
                return real(a[0], bytes(a[1])[:n])
        return real(*a, **k)
    w.__wrapped__ = real
    return w


def install():
    if _real:
        return
    for n, idxs in PATH_FUNCS.items():
        _real[n] = getattr(os, n)
        setattr(os, n, _wrap_path_func(n, _real[n], idxs))
    for n in ("sendfile", "copy_file_range", "write", "pwrite", "ftruncate", "fsync"):
        if hasattr(os, n):
            _real[n] = getattr(os, n)
            setattr(os, n, _fd_func_wrap(n, _real[n]))
    _real["bopen"] = builtins.open
    w = _open_wrap(builtins.open)
    builtins.open = w
    io.open = w
    _real["flock"] = fcntl.flock
    fcntl.flock = _flock_wrap(fcntl.flock)


def real(name):
    return _real.get(name) or getattr(os, name)


def activate(ctx):
    _tls.ctx = ctx


def deactivate():
    _tls.ctx = None


class active:
    """with fsi.active(root, callback) as ctx: ...   (current thread only)"""

    def __init__(self, root, on_op):
        install()
        self.ctx = Ctx(root, on_op)

    def __enter__(self):
        self.prev = getattr(_tls, "ctx", None)
        _tls.ctx = self.ctx
        return self.ctx

    def __exit__(self, *a):
        _tls.ctx = self.prev
        return False


def trace_call(root, fn):
    """Dry run: returns (outcome, [events]) of fn() with every boundary recorded."""
    from .common import call
    evs = []
    with active(root, evs.append):
        out = call(fn)
    return out, evs


def coarse_mtime_filter(granularity_s):
    """stat_filter simulating a file system whose timestamps have the given granularity (ext3 / HFS+ have
    1 s, FAT 2 s): st_atime / st_mtime / st_ctime are truncated, the sub-second fields disappear."""
    def flt(st):
        g = granularity_s
        return os.stat_result((st.st_mode, st.st_ino, st.st_dev, st.st_nlink, st.st_uid, st.st_gid, st.st_size,
                               int(st.st_atime // g * g), int(st.st_mtime // g * g), int(st.st_ctime // g * g)))
    return flt
