"""E1 + E2: reference model of the public API and the interpreter that runs a generated history
(a JSON list of operations) against the real store and the model side by side.

A *case* is {"cfg": {...}, "contents": [content descriptors], "docs": [content descriptors],
"ops": [op, ...]} ; ops refer to contents / documents by index and to cids symbolically
({"of": i} = cid of content i under the store algorithm, {"raw": hex} = literal)."""
import hashlib
import io
import os
import shutil
from pathlib import Path

from . import common, gen
from .common import Cfg, call, is_ok

ALREADY = {"HashStoreRefsAlreadyExists", "PidRefsAlreadyExistsError"}
UNBOUND = {"PidRefsDoesNotExist"}
OBJ_MISSING = {"RefsFileExistsButCidObjMissing"}


class Model:
    """Pure specification state, keyed by exact identifier strings."""

    def __init__(self, cfg):
        self.cfg = cfg
        self.objs = set()
        self.maybe = set()   # objects that MAY exist: content of a store_object whose tagging was rejected
        self.pidref = {}
        self.cidref = {}
        self.meta = {}
        self.bytes_of = {}  # cid -> bytes (content table)

    def copy(self):
        m = Model(self.cfg)
        m.objs = set(self.objs)
        m.maybe = set(self.maybe)
        m.pidref = dict(self.pidref)
        m.cidref = {k: list(v) for k, v in self.cidref.items()}
        m.meta = dict(self.meta)
        m.bytes_of = self.bytes_of
        return m

    # --- image of the model on disk, through the independent layout code --------------------
    def image(self):
        cfg = self.cfg
        return {
            "objects": {c: (len(self.bytes_of[c]), c) for c in self.objs},
            "maybe_objects": {c: (len(self.bytes_of[c]), c) for c in self.maybe},
            "pidrefs": {cfg.H(p): c for p, c in self.pidref.items()},
            "cidrefs": {c: sorted(l) for c, l in self.cidref.items()},
            "metadata": {(cfg.H(p), cfg.H(p + f)): hashlib.sha256(b).hexdigest()
                         for (p, f), b in self.meta.items()},
        }

    # --- transitions; each returns the expectation for the call's outcome ---------------------
    def tag(self, pid, cid):
        if pid in self.pidref:
            return {"err": ALREADY}
        self.pidref[pid] = cid
        l = self.cidref.setdefault(cid, [])
        if pid not in l:
            l.append(pid)
        return {"ok": None}

    def store(self, pid, data, size_ok=True, cks_ok=True, keys=None):
        cid = self.cfg.digest(data)
        self.bytes_of[cid] = data
        val = {"cid": cid, "size": len(data), "keys": keys}
        if pid is None:
            self.objs.add(cid)
            self.maybe.discard(cid)
            return {"ok": val}
        if not size_ok or not cks_ok:
            errs = set()
            if not size_ok:
                errs.add("NonMatchingObjSize")
            if not cks_ok:
                errs.add("NonMatchingChecksum")
            if pid in self.pidref:
                errs |= ALREADY     # which of the two refusals comes first is not specified
            return {"err": errs}
        if pid in self.pidref:
            # tagging is refused; the property allows (does not require) the object to stay, unreferenced
            if cid not in self.objs:
                self.maybe.add(cid)
            return {"err": ALREADY}
        self.objs.add(cid)
        self.maybe.discard(cid)
        e = self.tag(pid, cid)
        return {"ok": val}

    def delete(self, pid):
        if pid not in self.pidref:
            return {"err": UNBOUND}
        cid = self.pidref.pop(pid)
        l = self.cidref.get(cid, [])
        if pid in l:
            l.remove(pid)
        if not l:
            self.cidref.pop(cid, None)
            self.objs.discard(cid)
            self.maybe.discard(cid)
        for k in [k for k in self.meta if k[0] == pid]:
            del self.meta[k]
        return {"ok": None}

    def dii(self, cid, size_ok, cks_ok):
        if cid not in self.objs:
            if cid in self.maybe and not (size_ok and cks_ok) and cid not in self.cidref:
                self.maybe.discard(cid)
            return {"any": True}  # stale ObjectMetadata: only "no change" is required
        if size_ok and cks_ok:
            return {"ok": None}
        errs = set()
        if not size_ok:
            errs.add("NonMatchingObjSize")
        if not cks_ok:
            errs.add("NonMatchingChecksum")
        if cid not in self.cidref:
            self.objs.discard(cid)
        return {"err": errs}

    def smeta(self, pid, fmt, doc):
        self.meta[(pid, self.cfg.ns if fmt is None else fmt)] = doc
        return {"ok": "path"}

    def rmeta(self, pid, fmt):
        k = (pid, self.cfg.ns if fmt is None else fmt)
        if k in self.meta:
            return {"ok": self.meta[k]}
        return {"err": {"ValueError"}}

    def dmeta(self, pid, fmt):
        if fmt is None:
            for k in [k for k in self.meta if k[0] == pid]:
                del self.meta[k]
        else:
            self.meta.pop((pid, fmt), None)
        return {"ok": None}

    def lookup(self, pid):
        """Expectation of retrieve_object / get_hex_digest: bytes or error class set."""
        if pid not in self.pidref:
            return {"err": UNBOUND}
        cid = self.pidref[pid]
        if cid in self.maybe:
            return {"ok_or_err": (self.bytes_of[cid], OBJ_MISSING)}
        if cid not in self.objs:
            return {"err": OBJ_MISSING}
        return {"ok": self.bytes_of[cid]}


class Rec:
    """What one step did: op, real outcome, model expectation, abstract state afterwards."""
    __slots__ = ("i", "op", "out", "exp", "alpha", "before", "model_before", "model", "skipped",
                 "extra")


def _wrong_size(n, d):
    """A size that is not n: n + d, or (d = "blk8192" / "blk4096" / "blk65536") the largest multiple of that block size below n -
    a prefix of whole read buffers."""
    if isinstance(d, str) and d.startswith("blk"):
        b = int(d[3:])
        k = (n - 1) // b * b
        return k if 0 < k < n else n - 1 if n > 1 else n + 1
    return n + d


class ShortReads(io.BufferedIOBase):
    """Seekable in-memory stream that hands out at most 1500 bytes per read()."""

    def __init__(self, data, chunk=1500):
        self._b, self._chunk = io.BytesIO(data), chunk

    def read(self, size=-1):
        if size is None or size < 0:
            return self._b.read()
        return self._b.read(min(size, self._chunk))

    def read1(self, size=-1):
        return self.read(size)

    def readinto(self, b):
        data = self.read(len(b))
        b[:len(data)] = data
        return len(data)

    def readable(self):
        return True

    def seekable(self):
        return True

    def seek(self, pos, whence=0):
        return self._b.seek(pos, whence)

    def tell(self):
        return self._b.tell()


# symbolic pids: "a pid that is also the path of an existing regular file" (two twin files with equal content).
# The token is replaced by the absolute path of the file at execution time; {"op": "pidfile", "i", "what"} edits /
# removes / re-creates the file the pid names (the store must not care: identifiers are opaque strings).
PIDFILE = ["@@PIDFILE0@@", "@@PIDFILE1@@"]


class Run:
    """Executes a case step by step on a real store and on the model."""

    def __init__(self, case, ctx, root=None, store_factory=None):
        self.case, self.ctx = case, ctx
        self.cfg = Cfg.from_json(case.get("cfg"))
        self.work = ctx.scratch("seq")
        self.root = root or os.path.join(self.work, "store")
        self.open_path = self.root
        if case.get("root_via") == "symlink" and root is None:
            # the store is opened through a symbolic link to its directory (a non-canonical store path)
            os.makedirs(self.root, exist_ok=True)
            self.open_path = os.path.join(self.work, "link-to-store")
            os.symlink(self.root, self.open_path)
        self.src = os.path.join(self.work, "src")
        os.makedirs(self.src, exist_ok=True)
        self.contents = [common.make_content(d) for d in case.get("contents", [])]
        self.docs = [common.make_content(d) for d in case.get("docs", [])]
        self.cpaths = [common.write_file(os.path.join(self.src, f"c{i}"), b)
                       for i, b in enumerate(self.contents)]
        self.dpaths = [common.write_file(os.path.join(self.src, f"d{i}"), b)
                       for i, b in enumerate(self.docs)]
        self.pidfiles = [common.write_file(os.path.join(self.src, f"pidfile{i}"), b"twin pid file\n") for i in range(2)]
        self.factory = store_factory or (lambda: common.make_store(self.open_path, self.cfg))
        # the current directory of the process holds DECOY files named like the cids the history uses (checksum-named partial
        # exports are common in practice): whatever a content identifier happens to name relative to the current directory
        # must never be read, served or removed by the store.  (The case runs with this directory as the process's current directory.)
        self.cwd = os.path.join(self.work, "cwd")
        os.makedirs(self.cwd, exist_ok=True)
        self.decoys = {}
        if case.get("decoys", True):
            for b in self.contents:
                self._decoy(self.cfg.digest(b))
            old_cwd = os.getcwd()
            os.chdir(self.cwd)          # for the whole case (observations between the steps included); restored by ctx.end_case()
            if hasattr(ctx, "cleanups"):
                ctx.cleanups.append(lambda: os.chdir(old_cwd))
        if case.get("root_via") == "relative" and root is None and case.get("decoys", True):
            # the store is opened through a path RELATIVE to the process's current directory ("var/metacat", as in the factory's
            # docstring); the current directory stays what it is for the whole case
            os.makedirs(self.root, exist_ok=True)
            self.open_path = os.path.relpath(self.root, self.cwd)
        self.store = self.factory()
        self.stores = {0: self.store}  # op["inst"] selects another instance on the same directory
        self.model = Model(self.cfg)
        self.om = {}  # content index -> ObjectMetadata last returned for it
        self.decoy = None
        self.recs = []
        self.alpha = common.alpha(self.root, self.cfg)
        self.open_streams = []

    # --- helpers ----------------------------------------------------------------------------
    def cid_of(self, spec):
        if "raw" in spec:
            return spec["raw"]
        cid = self.cfg.digest(self.contents[spec["of"]])
        return cid.upper() if spec.get("upper") else cid

    def data_arg(self, idx, kind, offset=0, docs=False):
        paths, blobs = (self.dpaths, self.docs) if docs else (self.cpaths, self.contents)
        if kind == "path":
            return Path(paths[idx]), None
        if kind == "file":
            f = open(paths[idx], "rb")
            f.seek(min(offset, len(blobs[idx])))
            self.open_streams.append(f)
            return f, f
        if kind == "bytesio":
            f = io.BytesIO(blobs[idx])
            f.seek(min(offset, len(blobs[idx])))
            return f, f
        if kind == "gzip":
            # a buffered stream whose NAMED file (the .gz) has another size than the bytes it yields
            import gzip
            gz = paths[idx] + ".gz"
            if not os.path.isfile(gz):
                with gzip.open(gz, "wb") as g:
                    g.write(blobs[idx])
            f = gzip.GzipFile(gz, "rb")
            f.seek(min(offset, len(blobs[idx])))
            self.open_streams.append(f)
            return f, f
        if kind == "linkpath":
            # the path of a symbolic link to the file
            link = paths[idx] + ".link"
            if not os.path.lexists(link):
                os.symlink(paths[idx], link)
            return link, None
        if kind == "shortreads":
            # a buffered binary stream whose read(n) returns FEWER than n bytes although more will follow (legal for
            # io.BufferedIOBase implementations over interactive / network sources): only an EMPTY read means end of stream
            f = ShortReads(blobs[idx])
            f.seek(min(offset, len(blobs[idx])))
            return f, f
        if kind == "relpath":
            # a path RELATIVE to the current directory (the step changes into the directory of the file for the call)
            return os.path.basename(paths[idx]), None
        if kind == "rwfile":
            # a read/write handle whose content still sits in its user-space buffer (written, not flushed): what the
            # stream DELIVERS is the content; the raw descriptor / the file's stat say something else
            self._rw = getattr(self, "_rw", 0) + 1
            f = open(os.path.join(self.src, f"rw{self._rw}"), "w+b")
            f.write(blobs[idx])
            f.seek(min(offset, len(blobs[idx])))
            self.open_streams.append(f)
            return f, f
        if kind == "bufreader":
            f = io.BufferedReader(io.BytesIO(blobs[idx]))
            f.seek(min(offset, len(blobs[idx])))
            return f, f
        return paths[idx], None

    def close(self):
        for f in self.open_streams:
            try:
                f.close()
            except Exception:
                pass
        self.open_streams = []

    def _decoy(self, name):
        if name and os.sep not in name and name not in self.decoys and len(name) < 200:
            body = b"DECOY in the current directory, named like the cid " + name.encode("utf-8", "replace")
            self.decoys[name] = body
            common.write_file(os.path.join(self.cwd, name), body)

    def decoy_problem(self):
        """A decoy file of the current directory that is gone or altered."""
        for name, body in self.decoys.items():
            p = os.path.join(self.cwd, name)
            try:
                with open(p, "rb") as f:
                    if f.read() != body:
                        return f"the file {name[:20]}.. in the caller's current directory was altered"
            except OSError:
                return f"the file {name[:20]}.. in the caller's current directory (outside the store) was removed"
        return None

    def rp(self, pid):
        """Resolve a symbolic pid."""
        return self.pidfiles[PIDFILE.index(pid)] if pid in PIDFILE else pid

    # --- one step ---------------------------------------------------------------------------
    def drop_exceptions(self):
        """Forget the exception objects (tracebacks, frames and what they reference) of all earlier steps."""
        for rec in self.recs:
            if rec.out is not None and len(rec.out) > 3 and rec.out[3] is not None:
                rec.out = rec.out[:3] + (None,)

    def step(self, op):
        r = Rec()
        r.i, r.op, r.skipped, r.extra = len(self.recs), op, False, {}
        if op.get("pid") in PIDFILE:
            op = dict(op, pid=self.rp(op["pid"]))
        r.before = self.alpha
        r.model_before = self.model.copy()
        inst = op.get("inst", 0)
        if inst not in self.stores:
            self.stores[inst] = self.factory()
        m, s, k = self.model, self.stores[inst], op["op"]
        if k == "store":
            data = self.contents[op["c"]]
            last = getattr(self, "_last_stream", None)
            if op.get("reuse_stream") and last is not None and last[0] == op["c"] and not last[1].closed:
                arg = stream = last[1]     # the SAME stream object the caller handed to an earlier call, as that call left it
            else:
                arg, stream = self.data_arg(op["c"], op.get("kind", "str"), op.get("offset", 0))
            if stream is not None:
                self._last_stream = (op["c"], stream)
            private_src = None
            if op.get("clobber_source") and stream is None and op.get("kind", "str") in ("str", "path"):
                # a private copy of the source file on the store's file system (hard links possible)
                self._priv = getattr(self, "_priv", 0) + 1
                private_src = os.path.join(self.src, f"private{self._priv}")
                shutil.copyfile(self.cpaths[op["c"]], private_src)
                arg = private_src if op.get("kind", "str") == "str" else Path(private_src)
            pid = op.get("pid")
            add = op.get("add")
            cks_mode, cks_algo = op.get("cks", "none"), op.get("cks_algo")
            size_mode = op.get("size", "none")
            kwargs = {}
            keys = set(common.DEFAULT_DIGESTS)
            size_ok = cks_ok = True
            if pid is not None:
                if add:
                    kwargs["additional_algorithm"] = add
                    keys.add(gen.canon(add))
                if cks_mode != "none":
                    ca = gen.canon(cks_algo)
                    true = hashlib.new(ca, data).hexdigest()
                    keys.add(ca)
                    if cks_mode == "right":
                        cks = true
                    elif cks_mode in ("upper", "mixed"):
                        cks = gen.apply_case(true, cks_mode)
                    elif cks_mode == "short":
                        cks, cks_ok = true[:-2], False
                    elif cks_mode == "lookalike":
                        cks, cks_ok = gen.lookalike(true, op.get("flip", 0)), False
                    elif cks_mode == "other":     # the true digest of ANOTHER content of the case
                        cks = hashlib.new(ca, self.contents[(op["c"] + 1) % len(self.contents)]).hexdigest()
                        cks_ok = cks == true
                    else:
                        cks, cks_ok = gen.flip_nibble(true, op.get("flip", 0)), False
                    kwargs["checksum"], kwargs["checksum_algorithm"] = cks, cks_algo
                if size_mode != "none":
                    n = len(data)
                    if size_mode == "right":
                        sz = n
                    else:
                        sz = max(1, _wrong_size(n, op.get("dsize", 1)))
                        if sz == n:
                            sz = n + 1
                    if sz >= 1:
                        kwargs["expected_object_size"] = sz
                        size_ok = (sz == n)
            pos = stream.tell() if stream is not None else None
            cwd = os.getcwd()
            if op.get("kind") == "relpath":
                os.chdir(self.src)
            try:
                if pid is None and op.get("nopid_args"):
                    # validation arguments next to pid=None: the pinned interface ignores them (only data is stored)
                    true_md5 = hashlib.md5(data).hexdigest()
                    wrong = op["nopid_args"] == "wrong"
                    r.out = call(s.store_object, None, arg, checksum=gen.flip_nibble(true_md5, 3) if wrong else true_md5,
                                 checksum_algorithm="md5", expected_object_size=len(data) + 7 if wrong else max(1, len(data)))
                elif pid is not None and op.get("drop_exceptions_at") is not None:
                    # the application kept the exception objects of its earlier (refused) requests - for its error report - and
                    # lets go of them while THIS call is under way (another thread empties the list, the cyclic collector runs):
                    # whatever those tracebacks kept alive is finalised now, in the middle of the call
                    from . import fsi
                    import gc
                    fsi.install()
                    state = {"n": 0}

                    def cb(ev, _k=op["drop_exceptions_at"]):
                        if state["n"] == _k:
                            self.drop_exceptions()
                            gc.collect()
                        state["n"] += 1
                    with fsi.active(self.root, cb) as fctx:
                        fctx.read_boundaries = True
                        fctx.extra_read_roots = [os.path.realpath(self.src), self.src]
                        r.out = call(s.store_object, pid, arg, **kwargs)
                elif pid is not None:
                    r.out = call(s.store_object, pid, arg, **kwargs)
                else:
                    r.out = call(s.store_object, None, arg)
                if op.get("clobber_source") and private_src:
                    # the caller goes on using ITS file: rewritten in place after the call (same length, other bytes)
                    with open(private_src, "r+b") as f:
                        f.write(bytes((b ^ 0x5A) for b in data[:65536]) or b"x")
                    os.remove(private_src)
            finally:
                os.chdir(cwd)
            if stream is not None:
                r.extra["stream"] = {"closed": stream.closed,
                                     "tell": None if stream.closed else stream.tell(), "pos": pos}
            r.exp = m.store(pid, data, size_ok, cks_ok, keys)
            if is_ok(r.out):
                self.om[op["c"]] = r.out[1]
        elif k == "tag":
            cid = self.cid_of(op["cid"])
            r.out = call(s.tag_object, op["pid"], cid)
            r.exp = m.tag(op["pid"], cid)
        elif k == "delete":
            if op.get("fault") in ("marker-remove", "marker-remove-all"):
                # the removal of the first "<name>_delete" marker fails once (EIO): a state with a left-over marker that
                # the store can be in after an I/O error (only used by checks that do not judge residue)
                from . import fsi
                fired = []

                def cb(ev):
                    if (not fired or op["fault"] == "marker-remove-all") and ev.kind in ("remove", "unlink") and ev.dest.endswith("_delete"):
                        fired.append(ev)
                        raise OSError(5, "Input/output error [injected]", ev.dest)
                with fsi.active(self.root, cb):
                    r.out = call(s.delete_object, op["pid"])
            else:
                r.out = call(s.delete_object, op["pid"])
            r.exp = m.delete(op["pid"])
        elif k == "dii":
            om = self.om.get(op["c"])
            if om is None:
                r.skipped = True
                r.out, r.exp = ("ok", None), {"ok": None}
            else:
                data = self.contents[op["c"]]
                ca = gen.canon(op.get("cks_algo") or "sha256")
                true = hashlib.new(ca, data).hexdigest()
                mode = op.get("cks", "right")
                cks_ok = mode in ("right", "upper", "mixed")
                if mode == "other":
                    other = hashlib.new(ca, self.contents[(op["c"] + 1) % len(self.contents)]).hexdigest()
                    cks_ok = other == true
                cks = other if mode == "other" else true if mode == "right" else gen.apply_case(true, mode) if cks_ok \
                    else gen.lookalike(true, op.get("flip", 0)) if mode == "lookalike" else gen.flip_nibble(true, op.get("flip", 0))
                n = len(data)
                size_mode = op.get("size", "right")
                if size_mode == "none" or n == 0 and size_mode == "right":
                    sz, size_ok = None, True
                elif size_mode == "right":
                    sz, size_ok = n, True
                else:
                    sz = max(1, _wrong_size(n, op.get("dsize", 1)))
                    if sz == n:
                        sz = n + 1
                    size_ok = False
                r.out = call(s.delete_if_invalid_object, common.om_for(s, om), cks, op.get("cks_algo") or "sha256", sz)
                r.exp = m.dii(om.cid, size_ok, cks_ok)
        elif k == "smeta":
            arg, stream = self.data_arg(op["d"], op.get("kind", "str"), op.get("offset", 0), docs=True)
            fmt = op.get("fmt")
            cwd = os.getcwd()
            if op.get("kind") == "relpath":
                os.chdir(self.src)
            try:
                r.out = call(s.store_metadata, op["pid"], arg, fmt) if fmt is not None \
                    else call(s.store_metadata, op["pid"], arg)
            finally:
                os.chdir(cwd)
            r.exp = m.smeta(op["pid"], fmt, self.docs[op["d"]])
        elif k == "rmeta":
            r.out = common.retrieve_meta_bytes(s, op["pid"], op.get("fmt"))
            r.exp = m.rmeta(op["pid"], op.get("fmt"))
        elif k == "dmeta":
            fmt = op.get("fmt")
            r.out = call(s.delete_metadata, op["pid"], fmt) if fmt is not None \
                else call(s.delete_metadata, op["pid"])
            r.exp = m.dmeta(op["pid"], fmt)
        elif k == "retrieve":
            r.out = common.retrieve_bytes(s, op["pid"])
            r.exp = m.lookup(op["pid"])
        elif k == "hexd":
            r.out = call(s.get_hex_digest, op["pid"], op["algo"])
            e = m.lookup(op["pid"])
            if "ok_or_err" in e:
                e = {"ok_or_err": (hashlib.new(gen.canon(op["algo"]), e["ok_or_err"][0]).hexdigest(), e["ok_or_err"][1])}
            r.exp = {"ok": hashlib.new(gen.canon(op["algo"]), e["ok"]).hexdigest()} if "ok" in e else e
        elif k == "decoy":
            # ANOTHER store (own directory, a different algorithm) in the same process handles the same pid:
            # nothing of it may leak into this store (process-wide caches keyed by identifier only)
            if self.decoy is None:
                algos = list(common.STORE_ALGOS)
                dcfg = Cfg(algos[(algos.index(self.cfg.algo) + 1 + op.get("n", 0)) % len(algos)], 2, 3)
                if dcfg.algo == self.cfg.algo:
                    dcfg = Cfg(algos[(algos.index(self.cfg.algo) + 1) % len(algos)], 2, 3)
                self.decoy = common.make_store(os.path.join(self.work, "decoy"), dcfg)
            call(self.decoy.store_object, op["pid"], self.cpaths[op.get("c", 0)])
            if op.get("fmt", "-") != "-":
                call(self.decoy.store_metadata, op["pid"], self.cpaths[op.get("c", 0)], *([op["fmt"]] if op["fmt"] else []))
            call(self.decoy.retrieve_object, op["pid"])
            r.skipped = True
            r.out, r.exp = ("ok", None), {"ok": None}
        elif k == "pidfile":
            path = self.pidfiles[op["i"]]
            if op["what"] == "remove":
                if os.path.isfile(path):
                    os.remove(path)
            elif op["what"] == "edit":
                with open(path, "ab") as f:
                    f.write(b"edited\n")
            else:
                common.write_file(path, b"twin pid file\n")
            r.skipped = True
            r.out, r.exp = ("ok", None), {"ok": None}
        elif k == "reopen":
            if op.get("cold"):
                common.cold_module()
            r.out = call(self.factory)
            if is_ok(r.out):
                self.stores[inst] = r.out[1]
                if inst == 0:
                    self.store = r.out[1]
            r.exp = {"ok": "store"}
        else:
            raise ValueError(f"unknown op {op}")
        self.close()
        self.alpha = r.alpha = common.alpha(self.root, self.cfg)
        r.model = self.model
        self.recs.append(r)
        return r

    # --- oracles (each property picks the ones its statement covers) -------------------------
    def describe(self, r):
        o = r.out
        return {"step": r.i, "op": r.op, "outcome": "ok" if is_ok(o) else f"{o[1]}: {o[2][:160]}"}

    def outcome_problem(self, r, check_value=True):
        """None if the real outcome is one the model allows, else a text."""
        if r.skipped or "any" in r.exp:
            return None
        o, e = r.out, r.exp
        if "ok_or_err" in e:
            val, errs = e["ok_or_err"]
            if is_ok(o):
                return None if (not check_value or o[1] == val) else f"returned {_short(o[1])}, expected {_short(val)}"
            return None if o[1] in errs else f"raised {o[1]}, expected success or one of {sorted(errs)}"
        if "err" in e:
            if is_ok(o):
                return f"call returned normally, expected one of {sorted(e['err'])}"
            if o[1] not in e["err"]:
                return f"raised {o[1]} ({o[2][:120]}), expected one of {sorted(e['err'])}"
            return None
        if not is_ok(o):
            return f"raised {o[1]} ({o[2][:200]}), expected success"
        if not check_value:
            return None
        k, v, ev = r.op["op"], o[1], e["ok"]
        if k == "store":
            if v.cid != ev["cid"]:
                return f"cid {v.cid} != digest of content {ev['cid']}"
            if v.obj_size != ev["size"]:
                return f"obj_size {v.obj_size} != {ev['size']}"
        elif k in ("retrieve", "rmeta", "hexd"):
            if v != ev:
                return f"returned {_short(v)}, expected {_short(ev)}"
        return None

    def refs_problem(self, r):
        img, a = r.model.image(), r.alpha
        if a["pidrefs"] != img["pidrefs"]:
            return "pid references differ: disk=%s model=%s" % (_dd(a["pidrefs"], img["pidrefs"]))
        disk = {c: sorted(l) for c, l in a["cidrefs"].items()}
        if disk != img["cidrefs"]:
            return "cid reference lists differ: disk=%s model=%s" % (_dd(disk, img["cidrefs"]))
        return None

    def objects_problem(self, r):
        img, a = r.model.image(), r.alpha
        disk = {c: v for c, v in a["objects"].items() if not (c in img["maybe_objects"] and img["maybe_objects"][c] == v)}
        if disk != img["objects"]:
            return "objects differ: disk=%s model=%s" % (_dd(disk, img["objects"]))
        return None

    def meta_problem(self, r):
        img, a = r.model.image(), r.alpha
        if a["metadata"] != img["metadata"]:
            return "metadata documents differ: disk=%s model=%s" % (_dd(
                {"/".join(k): v for k, v in a["metadata"].items()},
                {"/".join(k): v for k, v in img["metadata"].items()}))
        return None

    def residue_problem(self, r, prefixes=None):
        res = [x for x in r.alpha["residue"] if prefixes is None or x.startswith(tuple(prefixes))]
        return f"left-over files: {res[:5]}" if res else None

    def locks_problem(self):
        s = self.store
        bad = {}
        for n in ("object_locked_pids", "object_locked_cids", "metadata_locked_docs",
                  "reference_locked_pids"):
            for suf in ("_th", "_mp"):
                l = getattr(s, n + suf, None)
                if l is not None:
                    try:
                        if len(l):
                            bad[n + suf] = list(l)
                    except Exception:
                        pass
        return f"identifiers left locked: {bad}" if bad else None


def _short(v):
    if isinstance(v, (bytes, bytearray)):
        return f"<{len(v)} bytes sha256={hashlib.sha256(v).hexdigest()[:12]}>"
    s = repr(v)
    return s if len(s) < 120 else s[:117] + "..."


def _dd(a, b):
    """Only the differing entries of two dicts."""
    ks = sorted(set(a) | set(b), key=str)
    da = {str(k)[:20]: a.get(k) for k in ks if a.get(k) != b.get(k)}
    db = {str(k)[:20]: b.get(k) for k in ks if a.get(k) != b.get(k)}
    return (_short(da), _short(db))


def summarize_case(case, max_ops=40):
    """Compact rendering for evidence samples."""
    return {"cfg": case.get("cfg"),
            "contents": [common.content_summary(d) for d in case.get("contents", [])],
            "docs": [common.content_summary(d) for d in case.get("docs", [])],
            "ops": case.get("ops", [])[:max_ops]}
