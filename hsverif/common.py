"""Shared plumbing: import of the code under test from /repo's working tree, scratch space,
store construction, the independent layout functions, the abstraction function alpha() and
byte-for-byte snapshots."""
import hashlib
import io
import json
import logging
import os
import shutil
import sys
import tempfile

VERIF_DIR = os.path.dirname(os.path.dirname(os.path.abspath(__file__)))
REPO_SRC = os.environ.get("HSVERIF_REPO_SRC", "/repo/src")
if REPO_SRC not in sys.path:
    sys.path.insert(0, REPO_SRC)
# guard for source hooks (none exist in /repo; recorded in MANIFEST.hooks)
os.environ.setdefault("HASHSTORE_VERIF", "1")

if os.environ.get("HSVERIF_LOGLEVEL") == "DEBUG":
    # some shards run with DEBUG logging switched ON (into a null handler): code that only runs when a log level is
    # enabled - an `isEnabledFor(DEBUG)` branch, the arguments of a debug call - must not change what the store does
    logging.getLogger().handlers[:] = [logging.NullHandler()]
    logging.getLogger().setLevel(logging.DEBUG)
else:
    logging.disable(logging.CRITICAL)

DEFAULT_NS = "https://ns.dataone.org/service/types/v2.0#SystemMetadata"
STORE_ALGOS = {"MD5": "md5", "SHA-1": "sha1", "SHA-256": "sha256", "SHA-384": "sha384",
               "SHA-512": "sha512"}
DEFAULT_DIGESTS = ["md5", "sha1", "sha256", "sha384", "sha512"]
OTHER_DIGESTS = ["sha224", "sha3_224", "sha3_256", "sha3_384", "sha3_512", "blake2b", "blake2s"]
ALL_DIGESTS = DEFAULT_DIGESTS + OTHER_DIGESTS


def hs():
    """Import the module under test lazily (so that engines can patch the OS boundary first)."""
    import hashstore.filehashstore as m
    return m


_CODE = {}
CODE_PATCH = None   # optional code-object transformer (coverage instrumentation of the code under test, see fuzz.py)


def om_for(store, om):
    """The ObjectMetadata `om` as an instance of the class of the module `store` was built from (after a cold
    reload an ObjectMetadata made by the 'other process' has to be re-created, as it would be after transport)."""
    try:
        OM = type(store).store_object.__globals__.get("ObjectMetadata")
    except AttributeError:
        return om
    if OM is None or isinstance(om, OM) or not hasattr(om, "hex_digests"):
        return om
    return OM(om.pid, om.cid, om.obj_size, om.hex_digests)


def cold_module():
    """Re-execute hashstore.filehashstore into a NEW module object and make it the current one: every
    class-level / module-level piece of in-memory state (caches, registries) starts empty, as it does in
    another process opening the same store.  Store instances made earlier keep the old module (they play
    the part of the other, still running, process).  The exception classes are shared (their module is
    not reloaded), so outcomes stay comparable."""
    import sys
    import types
    import hashstore
    old = hs()
    code = _CODE.get(old.__file__)
    if code is None:
        with open(old.__file__, "rb") as f:
            code = compile(f.read(), old.__file__, "exec")
            if CODE_PATCH is not None:
                code = CODE_PATCH(code)
            _CODE[old.__file__] = code
    m = types.ModuleType("hashstore.filehashstore")
    m.__file__, m.__package__, m.__loader__, m.__spec__ = old.__file__, old.__package__, old.__loader__, old.__spec__
    sys.modules["hashstore.filehashstore"] = m
    try:
        exec(code, m.__dict__)
    except BaseException:
        sys.modules["hashstore.filehashstore"] = old
        raise
    hashstore.filehashstore = m
    return m


def exc_classes():
    import hashstore.filehashstore_exceptions as e
    return e


# ---------------------------------------------------------------------------------------------
# scratch space

_SCRATCH_BASE = None
_SCRATCH_TOP = None


def scratch_base():
    """A private scratch directory for this process (tmpfs when available), removed at exit."""
    global _SCRATCH_BASE, _SCRATCH_TOP
    if _SCRATCH_BASE is None or not os.path.isdir(_SCRATCH_BASE):
        base = os.environ.get("HSVERIF_SCRATCH")
        if not base:
            base = "/dev/shm" if os.path.isdir("/dev/shm") and os.access("/dev/shm", os.W_OK) \
                else tempfile.gettempdir()
        top = tempfile.mkdtemp(prefix="hsverif-", dir=base)
        _SCRATCH_BASE = _SCRATCH_TOP = top
        if os.environ.get("HSVERIF_SCRATCH_STYLE") == "mixed":
            # every store of this process lives below a path with upper-case letters, a dot, a plus sign and brackets (half of the
            # shards): code that lower-cases, case-folds, pattern-matches or globs whole paths meets a path it changes
            _SCRATCH_BASE = os.path.join(top, "DataONE", "Hash.Store+Tmp[v1]")
            os.makedirs(_SCRATCH_BASE)
        import atexit
        atexit.register(cleanup_scratch, top, os.getpid())
    return _SCRATCH_BASE


def cleanup_scratch(path=None, pid=None):
    if pid is not None and pid != os.getpid():
        return  # forked child: the parent owns the directory
    shutil.rmtree(path or _SCRATCH_TOP or _SCRATCH_BASE or "", ignore_errors=True)


_counter = [0]


def fresh_dir(prefix="c"):
    _counter[0] += 1
    d = os.path.join(scratch_base(), f"{prefix}{os.getpid()}_{_counter[0]}")
    os.makedirs(d)
    return d


def rmtree(d):
    shutil.rmtree(d, ignore_errors=True)


# ---------------------------------------------------------------------------------------------
# configuration and store construction

class Cfg:
    def __init__(self, algo="SHA-256", depth=3, width=2, ns=DEFAULT_NS):
        self.algo, self.depth, self.width, self.ns = algo, int(depth), int(width), ns

    @property
    def halgo(self):
        return STORE_ALGOS[self.algo]

    def props(self, root):
        return {"store_path": root, "store_depth": self.depth, "store_width": self.width,
                "store_algorithm": self.algo, "store_metadata_namespace": self.ns}

    def to_json(self):
        return {"algo": self.algo, "depth": self.depth, "width": self.width, "ns": self.ns}

    @staticmethod
    def from_json(j):
        j = j or {}
        return Cfg(j.get("algo", "SHA-256"), j.get("depth", 3), j.get("width", 2),
                   j.get("ns", DEFAULT_NS))

    # --- independent implementation of the published layout (README "Working with objects") ---
    def H(self, s):
        return hashlib.new(self.halgo, s.encode("utf-8")).hexdigest()

    def digest(self, b):
        return hashlib.new(self.halgo, b).hexdigest()

    def shard(self, digest):
        toks, rest = [], digest
        for _ in range(self.depth):
            toks.append(rest[:self.width])
            rest = rest[self.width:]
        toks.append(rest)
        return [t for t in toks if t]

    def obj_rel(self, cid):
        return os.path.join("objects", *self.shard(cid))

    def pidref_rel(self, pid):
        return os.path.join("refs", "pids", *self.shard(self.H(pid)))

    def cidref_rel(self, cid):
        return os.path.join("refs", "cids", *self.shard(cid))

    def meta_rel(self, pid, fmt=None):
        fmt = self.ns if fmt is None else fmt
        return os.path.join("metadata", *self.shard(self.H(pid)), self.H(pid + fmt))

    def digest_len(self):
        return hashlib.new(self.halgo).digest_size * 2


class ModeNotHonoured(RuntimeError):
    """USE_MULTIPROCESSING=True was in the environment when the store was initialised and the store is not in
    multiprocessing mode (or the other way round): the code under test ignored the setting (a verdict for C16)."""


def make_store(root, cfg=None, real_primitives=False, mp_mode=False, mp_env=False, int_as_str=False):
    """A FileHashStore on `root`.  By default it is constructed over the scheduler-aware Lock / Condition
    shims (sched.py): semantics are unchanged for single-threaded use, but a call that would WAIT (on an
    identifier some earlier call left locked) raises sched.WouldBlockForever instead of hanging the harness."""
    cfg = cfg or Cfg()
    from . import sched
    sched.install_dispatch()
    if real_primitives:
        sched.set_mode("real")
        cold_module()      # primitives the module creates when it is executed (class-level locks) must be real ones, too
        if not mp_env:
            return hs().FileHashStore(cfg.props(root))
        # the documented order: the module is imported, THEN the variable is set, then the store is initialised
        old = os.environ.get("USE_MULTIPROCESSING")
        os.environ["USE_MULTIPROCESSING"] = "True"
        try:
            store = hs().FileHashStore(cfg.props(root))
        finally:
            if old is None:
                os.environ.pop("USE_MULTIPROCESSING", None)
            else:
                os.environ["USE_MULTIPROCESSING"] = old
        if not bool(getattr(store, "use_multiprocessing", True)):
            raise ModeNotHonoured("USE_MULTIPROCESSING=True was set before the store was initialised, the store runs in threading mode")
        return store
    sched.set_mode("shim")
    props = cfg.props(root)
    if int_as_str:      # integers given as integer-like strings (what a caller that reads its configuration from the environment passes)
        props.update(store_depth=str(props["store_depth"]), store_width=str(props["store_width"]))
    with sched.shimmed_primitives(mp_mode=mp_mode):
        store = hs().FileHashStore(props)
    # the caller goes on using its dictionary for other things: the store must have taken what it needs
    props.update(store_path=str(root) + "-not-this-one", store_depth=1, store_width=1, store_algorithm="MD5",
                 store_metadata_namespace="urn:scrambled-after-the-store-was-opened")
    if bool(getattr(store, "use_multiprocessing", mp_mode)) != bool(mp_mode):
        # (sched.shimmed_primitives sets / clears the variable around the constructor - checked by tools/selftest.py on the
        # pinned tree; a mismatch here means the code under test did not look at the environment when it was initialised)
        raise ModeNotHonoured(f"USE_MULTIPROCESSING={'True' if mp_mode else 'unset'} when the store was initialised, the store reports "
                              f"use_multiprocessing={store.use_multiprocessing}")
    return store


# ---------------------------------------------------------------------------------------------
# outcomes of calls on the code under test

def call(fn, *a, **k):
    """Run one call on the code under test; every exception is an outcome, never a harness error."""
    try:
        return ("ok", fn(*a, **k))
    except BaseException as e:  # noqa - SystemExit/KeyboardInterrupt from the store are outcomes too
        if isinstance(e, (KeyboardInterrupt,)):
            raise
        return ("err", type(e).__name__, str(e)[:300], e)


def is_ok(out):
    return out[0] == "ok"


def err_name(out):
    return None if out[0] == "ok" else out[1]


def read_stream(s):
    try:
        return s.read()
    finally:
        try:
            s.close()
        except Exception:
            pass


def retrieve_bytes(store, pid):
    """("ok", bytes) or ("err", class, msg, exc)."""
    out = call(store.retrieve_object, pid)
    if not is_ok(out):
        return out
    return call(read_stream, out[1])


def retrieve_meta_bytes(store, pid, fmt=None):
    out = call(store.retrieve_metadata, pid, fmt) if fmt is not None else call(store.retrieve_metadata, pid)
    if not is_ok(out):
        return out
    return call(read_stream, out[1])


# ---------------------------------------------------------------------------------------------
# abstraction function

HEX = set("0123456789abcdef")


def _is_hex(s):
    return bool(s) and all(c in HEX for c in s)


def alpha(root, cfg, ignore=("python_client.log",)):
    """Abstract state of a store directory, computed with the independent layout code.
    objects: {cid -> (size, digest under store algorithm)}; pidrefs: {H(pid) -> text};
    cidrefs: {cid -> [lines]}; metadata: {(H(pid), docname) -> sha256 of bytes};
    residue: every other file (tmp files, *_delete markers, misplaced files)."""
    out = {"objects": {}, "pidrefs": {}, "cidrefs": {}, "metadata": {}, "residue": [],
           "yaml": os.path.isfile(os.path.join(root, "hashstore.yaml"))}
    dl = cfg.digest_len()
    for dp, dn, fn in os.walk(root):
        for f in fn:
            p = os.path.join(dp, f)
            rel = os.path.relpath(p, root)
            parts = rel.split(os.sep)
            if rel == "hashstore.yaml" or rel in ignore:
                continue
            try:
                with open(p, "rb") as fh:
                    b = fh.read()
            except OSError:
                out["residue"].append(rel + " (unreadable)")
                continue
            placed = False
            if parts[0] == "objects" and len(parts) > 1 and parts[1] != "tmp":
                cid = "".join(parts[1:])
                if _is_hex(cid) and len(cid) == dl and parts[1:] == cfg.shard(cid):
                    out["objects"][cid] = (len(b), cfg.digest(b))
                    placed = True
            elif parts[0] == "refs" and len(parts) > 2 and parts[1] == "pids":
                h = "".join(parts[2:])
                if _is_hex(h) and len(h) == dl and parts[2:] == cfg.shard(h):
                    out["pidrefs"][h] = b.decode("utf-8", "replace")
                    placed = True
            elif parts[0] == "refs" and len(parts) > 2 and parts[1] == "cids":
                h = "".join(parts[2:])
                # the list of a cid lives at shard(cid) for the cid string AS GIVEN (tag_object accepts any
                # string, e.g. an upper-case spelling of a digest)
                if _is_hex(h.lower()) and len(h) == dl and parts[2:] == cfg.shard(h):
                    out["cidrefs"][h] = b.decode("utf-8", "replace").split("\n")
                    # a well-formed list ends with a newline: last element is ''
                    if out["cidrefs"][h] and out["cidrefs"][h][-1] == "":
                        out["cidrefs"][h].pop()
                    else:
                        out["cidrefs"][h].append("<no trailing newline>")
                    placed = True
            elif parts[0] == "metadata" and len(parts) > 2 and parts[1] != "tmp":
                d, doc = "".join(parts[1:-1]), parts[-1]
                if _is_hex(d) and len(d) == dl and parts[1:-1] == cfg.shard(d) and _is_hex(doc) \
                        and len(doc) == dl:
                    out["metadata"][(d, doc)] = hashlib.sha256(b).hexdigest()
                    placed = True
            if not placed:
                out["residue"].append(rel)
    out["residue"].sort()
    return out


def alpha_key(a):
    """Canonical, hashable rendering of alpha()."""
    return json.dumps({"o": sorted(a["objects"].items()), "p": sorted(a["pidrefs"].items()),
                       "c": sorted(a["cidrefs"].items()),
                       "m": sorted((list(k), v) for k, v in a["metadata"].items()),
                       "r": a["residue"]}, sort_keys=True)


def snapshot(d):
    """Byte-for-byte snapshot: every path under d (directories included) -> kind/size/hash."""
    snap = {}
    if not os.path.lexists(d):
        return {"<absent>": True}
    for dp, dn, fn in os.walk(d):
        rel = os.path.relpath(dp, d)
        snap[rel + "/"] = "dir"
        for f in fn:
            p = os.path.join(dp, f)
            try:
                with open(p, "rb") as fh:
                    b = fh.read()
                snap[os.path.relpath(p, d)] = (len(b), hashlib.sha256(b).hexdigest())
            except OSError as e:
                snap[os.path.relpath(p, d)] = ("unreadable", type(e).__name__)
    return snap


def snap_diff(a, b, limit=6):
    ks = sorted(set(a) | set(b))
    return [(k, a.get(k), b.get(k)) for k in ks if a.get(k) != b.get(k)][:limit]


# ---------------------------------------------------------------------------------------------
# contents

def make_content(desc):
    """Content descriptor -> bytes. {"pat": hex, "n": int} repeats the pattern up to n bytes and
    makes the last byte differ, {"hex": ...} is literal."""
    if "hex" in desc:
        return bytes.fromhex(desc["hex"])
    if "zeros" in desc:
        head = desc.get("head", 0)
        return (b"hsverif-data:" * (head // 13 + 1))[:head] + b"\0" * desc["zeros"]
    pat = bytes.fromhex(desc["pat"]) or b"\0"
    n = desc["n"]
    b = (pat * (n // len(pat) + 1))[:n]
    if n > len(pat):
        b = b[:-1] + bytes([(b[-1] + 1) % 256])
    return b


def content_summary(desc):
    if "hex" in desc:
        return {"len": len(desc["hex"]) // 2, "head": desc["hex"][:16]}
    if "zeros" in desc:
        return {"len": desc.get("head", 0) + desc["zeros"], "zero_tail": desc["zeros"]}
    return {"len": desc["n"], "pat": desc["pat"][:16]}


def write_file(path, data):
    with open(path, "wb") as f:
        f.write(data)
    return path
