"""E5 - owned cooperative scheduler over real Python threads.

Exactly one program thread runs at a time; control changes hands only at scheduling points: every
file-system boundary of fsi, every lock acquisition and every condition wait of the scheduler-aware
shims the store is constructed with.  A thread waiting on a shim is KNOWN to be blocked, so "nobody
runnable and not everybody finished" is a structural deadlock verdict (no time-outs as oracles)."""
import contextlib
import fcntl
import multiprocessing
import os
import threading

from . import common, fsi
from .common import call

_RealSemaphore = threading.Semaphore
_RealThread = threading.Thread
WATCHDOG_S = 60.0


class Abort(BaseException):
    """Unwinds program threads when an execution is abandoned (deadlock / harness error)."""


class WouldBlockForever(RuntimeError):
    """Raised (instead of hanging) when the single harness thread would wait on a shim primitive."""


class Deadlock(Exception):
    def __init__(self, info):
        super().__init__(str(info))
        self.info = info


class Livelock(Deadlock):
    """An execution that passed MAX_STEPS scheduling points without completing: some call spins (a retry loop that can never
    succeed).  info has the shape of a Deadlock's: [(thread, state, wait_on, pending operation)]; spinning threads are 'spinning'."""


# default bound; conc.run_program raises it in proportion to the bytes its program may read (with read boundaries every read is two
# scheduling points, and a file of two-byte lines is read line by line: 70 000 steps for 70 kB - a false alarm of the first version)
MAX_STEPS = 30000


class HarnessTimeout(Exception):
    pass


class T:
    def __init__(self, idx, fn):
        self.idx, self.fn = idx, fn
        self.state = "ready"       # ready | blocked | done
        self.wait_on = None
        self.sem = _RealSemaphore(0)
        self.result = None
        self.pending = None
        self.steps = 0
        self.waited = False
        self.timed_wait = None      # SCondition the thread is blocked on WITH a timeout
        self.timed_out = False


_current = [None]   # the scheduler owning the running execution (None outside executions)


def cur():
    return _current[0]


class Sched:
    def __init__(self, root):
        self.root = root
        self.ts = []
        self.sem = _RealSemaphore(0)
        self.by_ident = {}
        self.trace = []
        self.abort = False
        self.total_steps = 0
        self.ctx = fsi.Ctx(root, self.on_boundary)
        self.ctx.flock_hook = self.flock_hook
        self.ctx.after_close = self.after_close
        self.flock_waiters = []
        self.log = []
        self.expire_timed_waits = False   # aggressive mode: a wait with a timeout expires at once ("the holder stalled for longer")
        self.saw_timed_wait = False

    # ---- program threads -------------------------------------------------------------------
    def add(self, fn):
        self.ts.append(T(len(self.ts), fn))

    def me(self):
        return self.by_ident.get(threading.get_ident())

    def _body(self, t):
        self.by_ident[threading.get_ident()] = t
        fsi.activate(self.ctx)
        t.sem.acquire()
        try:
            if not self.abort:
                t.result = t.fn()
        except Abort:
            t.result = ("abort",)
        except BaseException as e:  # noqa  (call() already catches store exceptions)
            t.result = ("err", type(e).__name__, str(e)[:300], e)
        finally:
            fsi.deactivate()
            t.state = "done"
            self.sem.release()

    def _handoff(self, t):
        """Give the baton back to the scheduler loop and wait to be resumed."""
        self.sem.release()
        t.sem.acquire()
        if self.abort:
            raise Abort()

    def yield_point(self, info):
        t = self.me()
        if t is None:
            return
        if self.abort:
            raise Abort()
        t.pending = info
        t.steps += 1
        self._handoff(t)
        # resumed: the operation described by `info` executes now -> execution-ordered log
        self.log.append((t.idx,) + tuple(info))

    def block(self, t, on):
        t.state, t.wait_on = "blocked", on
        t.waited = True
        self._handoff(t)

    def wake(self, t):
        if t.state == "blocked":
            t.state, t.wait_on = "ready", None

    # ---- fsi hooks -------------------------------------------------------------------------
    def on_boundary(self, ev):
        self.yield_point(("fs", ev.kind, ev.rel(self.ctx.root)))
        extra = getattr(self, "extra_on_op", None)
        if extra is not None:
            extra(self.me(), ev)       # runs when the thread is resumed, right before the operation: may raise an injected fault

    def flock_hook(self, real, fd, op, path):
        t = self.me()
        if op & fcntl.LOCK_UN:
            try:
                return real(fd, op)
            finally:
                self.after_close(path)        # an explicit unlock wakes the waiters just as closing the file does
        if t is None:
            return real(fd, op)
        while True:
            try:
                return real(fd, op | fcntl.LOCK_NB)
            except BlockingIOError:
                self.flock_waiters.append(t)
                self.block(t, ("flock", path))

    def after_close(self, path):
        ws, self.flock_waiters = self.flock_waiters, []
        for t in ws:
            self.wake(t)

    # ---- main loop -------------------------------------------------------------------------
    def run(self, chooser):
        """chooser(step, runnable, last, sched) -> T.  Returns per-thread results; raises Deadlock."""
        _current[0] = self
        ths = [_RealThread(target=self._body, args=(t,), daemon=True) for t in self.ts]
        for th in ths:
            th.start()
        last = None
        try:
            while True:
                runnable = [t for t in self.ts if t.state == "ready"]
                if not runnable:
                    if all(t.state == "done" for t in self.ts):
                        break
                    # file locks can be released in ways no hook sees (os.close of a raw descriptor, a dup'ed descriptor,
                    # the end of a thread): before calling it a deadlock let the flock waiters try once more - if nothing
                    # has been executed since their last attempt they are really stuck
                    if self.flock_waiters and getattr(self, "_flock_retry_at", -1) != len(self.log):
                        self._flock_retry_at = len(self.log)
                        self.after_close(None)
                        continue
                    timed = [t for t in self.ts if t.state == "blocked" and t.timed_wait is not None]
                    if timed:
                        # nobody can run: time passes until the first timed wait expires
                        tw = timed[0]
                        if tw in tw.timed_wait.waiters:
                            tw.timed_wait.waiters.remove(tw)
                        tw.timed_out = True
                        self.wake(tw)
                        continue
                    info = [(t.idx, t.state, t.wait_on, t.pending) for t in self.ts]
                    raise Deadlock(info)
                t = chooser(self.total_steps, runnable, last, self)
                if last is not None and t is not last and last.state == "ready":
                    self.trace.append(("preempt", self.total_steps, last.idx, t.idx, last.pending, len(self.log)))
                last = t
                self.total_steps += 1
                if self.total_steps > getattr(self, "max_steps", MAX_STEPS):
                    raise Livelock([(x.idx, "spinning" if x.state == "ready" else x.state, x.wait_on, x.pending) for x in self.ts])
                t.sem.release()
                if not self.sem.acquire(timeout=WATCHDOG_S):
                    raise HarnessTimeout(f"thread {t.idx} did not reach a scheduling point in {WATCHDOG_S}s "
                                         f"(pending {t.pending})")
        except BaseException:
            self._abandon(ths)
            raise
        finally:
            _current[0] = None
        for th in ths:
            th.join(timeout=5)
        return [t.result for t in self.ts]

    def _abandon(self, ths):
        self.abort = True
        for _ in range(3):
            for t in self.ts:
                if t.state != "done":
                    t.sem.release()
            for th in ths:
                th.join(timeout=0.5)
            if all(not th.is_alive() for th in ths):
                break


# ---- scheduler-aware synchronisation shims ------------------------------------------------------

class SLock:
    def __init__(self, *a, **k):
        self.owner = None
        self.blocked = []

    def acquire(self, blocking=True, timeout=-1):
        s = cur()
        t = s.me() if s else None
        if t is None:
            # outside an owned execution there is exactly one thread: a lock that is already held can
            # never be released by anybody else, so blocking here would be for ever
            if self.owner == "main":
                raise WouldBlockForever("acquire of a lock the only thread already holds")
            self.owner = "main"
            return True
        s.yield_point(("lock.acquire", id(self)))
        return self._take(s, t)

    def _take(self, s, t):
        while self.owner is not None and self.owner != "main":
            self.blocked.append(t)
            s.block(t, ("lock", id(self)))
        self.owner = t
        return True

    def release(self):
        self.owner = None
        s = cur()
        bl, self.blocked = self.blocked, []
        for t in bl:
            (s.wake(t) if s else None)

    def locked(self):
        return self.owner is not None

    def __enter__(self):
        return self.acquire()

    def __exit__(self, *a):
        self.release()


class SRLock(SLock):
    """Re-entrant variant (in case the code under test switches to threading.RLock)."""

    def __init__(self, *a, **k):
        super().__init__()
        self.depth = 0

    def acquire(self, blocking=True, timeout=-1):
        s = cur()
        t = s.me() if s else None
        if t is not None and self.owner is t:
            self.depth += 1
            return True
        r = super().acquire(blocking, timeout)
        self.depth = 1
        return r

    def release(self):
        self.depth -= 1
        if self.depth <= 0:
            self.depth = 0
            super().release()


class SCondition:
    def __init__(self, lock=None, *a, **k):
        self.lock = lock if lock is not None else SLock()
        self.waiters = []

    def acquire(self, *a, **k):
        return self.lock.acquire()

    def release(self):
        self.lock.release()

    def __enter__(self):
        return self.lock.acquire()

    def __exit__(self, *a):
        self.lock.release()

    def wait(self, timeout=None):
        s = cur()
        t = s.me() if s else None
        if t is None:
            if timeout is not None:
                return False          # a single thread waiting with a timeout: the timeout expires
            raise WouldBlockForever("condition wait with no other thread that could notify")
        if timeout is not None:
            s.saw_timed_wait = True
            if s.expire_timed_waits:
                # aggressive mode: the wait expires at once (others get a chance to run in between)
                self.lock.release()
                s.yield_point(("cond.wait.timeout", id(self)))
                self.lock._take(s, t)
                return False
        self.lock.release()
        self.waiters.append(t)
        t.pending = ("cond.wait", id(self))
        t.timed_wait, t.timed_out = (self if timeout is not None else None), False
        s.block(t, ("cond", id(self)))
        t.timed_wait = None
        self.lock._take(s, t)
        return not t.timed_out

    def wait_for(self, predicate, timeout=None):
        r = predicate()
        while not r:
            if not self.wait(timeout) and timeout is not None:
                return predicate()
            r = predicate()
        return r

    def notify(self, n=1):
        s = cur()
        for _ in range(n):
            if self.waiters:
                t = self.waiters.pop(0)
                (s.wake(t) if s else None)

    def notify_all(self):
        self.notify(len(self.waiters))


class SList(list):
    """Stand-in for multiprocessing.Manager().list(): every operation is a round trip to the manager
    process in reality, hence a scheduling point here."""

    def _yield(self, what):
        s = cur()
        if s is not None and s.me() is not None:
            s.yield_point(("mplist." + what, id(self)))

    def append(self, x):
        self._yield("append")
        return list.append(self, x)

    def remove(self, x):
        self._yield("remove")
        return list.remove(self, x)

    def __contains__(self, x):
        self._yield("contains")
        return list.__contains__(self, x)


    def pop(self, *a):
        self._yield("pop")
        return list.pop(self, *a)

    def extend(self, x):
        self._yield("extend")
        return list.extend(self, x)

    def insert(self, i, x):
        self._yield("insert")
        return list.insert(self, i, x)

    def __delitem__(self, i):
        self._yield("delitem")
        return list.__delitem__(self, i)

    def __len__(self):
        self._yield("len")
        return list.__len__(self)


class SDict(dict):
    """Stand-in for multiprocessing.Manager().dict(): every operation is a scheduling point."""

    def _yield(self, what):
        s = cur()
        if s is not None and s.me() is not None:
            s.yield_point(("mpdict." + what, id(self)))

    def __setitem__(self, k, v):
        self._yield("setitem")
        return dict.__setitem__(self, k, v)

    def __delitem__(self, k):
        self._yield("delitem")
        return dict.__delitem__(self, k)

    def __contains__(self, k):
        self._yield("contains")
        return dict.__contains__(self, k)

    def __getitem__(self, k):
        self._yield("getitem")
        return dict.__getitem__(self, k)

    def get(self, k, d=None):
        self._yield("get")
        return dict.get(self, k, d)

    def pop(self, *a):
        self._yield("pop")
        return dict.pop(self, *a)

    def setdefault(self, k, d=None):
        self._yield("setdefault")
        return dict.setdefault(self, k, d)

    def update(self, *a, **k):
        self._yield("update")
        return dict.update(self, *a, **k)

    def __len__(self):
        self._yield("len")
        return dict.__len__(self)


class _SManager:
    def list(self, *a):
        return SList(*a)

    def dict(self, *a, **k):
        return SDict(*a, **k)

    def Lock(self):
        return SLock()

    def RLock(self):
        return SRLock()

    def Condition(self, lock=None):
        return SCondition(lock)

    def Namespace(self):
        import types
        return types.SimpleNamespace()

    def start(self, *a, **k):
        pass

    def __enter__(self):
        return self

    def __exit__(self, *a):
        self.shutdown()

    def shutdown(self):
        pass


# ---- caller-based dispatch: primitives created LATER by the code under test are shims too -----------------
# (a refactoring may create its locks lazily, per identifier, at call time - after the constructor returned)

_REAL_PRIMS = {}
_MODE = ["shim"]     # "shim": Lock()/Condition()/Manager() called from a hashstore module give shims; "real": untouched


def set_mode(mode):
    _MODE[0] = mode


def _called_from_store():
    import sys
    f = sys._getframe(2)
    return str(f.f_globals.get("__name__", "")).startswith("hashstore")


def install_dispatch():
    """Idempotent.  threading.Lock / Condition and multiprocessing.Lock / Condition / Manager become factories that
    hand the code under test (caller's module name starts with 'hashstore') a scheduler-aware shim whenever the
    harness is in shim mode, and the real primitive to everybody else."""
    if _REAL_PRIMS:
        return
    _REAL_PRIMS.update(tl=threading.Lock, tc=threading.Condition, ml=multiprocessing.Lock, mc=multiprocessing.Condition,
                       mm=multiprocessing.Manager)

    def mk(real_key, shim):
        real = _REAL_PRIMS[real_key]

        def factory(*a, **k):
            if _MODE[0] == "shim" and _called_from_store():
                return shim(*a, **k)
            return real(*a, **k)
        factory.__name__ = getattr(real, "__name__", real_key)
        factory.__wrapped__ = real
        return factory
    threading.Lock = mk("tl", SLock)
    threading.Condition = mk("tc", SCondition)
    multiprocessing.Lock = mk("ml", SLock)
    multiprocessing.Condition = mk("mc", SCondition)
    multiprocessing.Manager = mk("mm", lambda *a, **k: _SManager())
    # time.sleep called by the code under test inside an owned execution: virtual time - a scheduling point, no waiting (a retry
    # loop with back-off would otherwise cost real seconds per explored schedule, and one that can never succeed real hours)
    import time as _time
    real_sleep = _time.sleep
    _REAL_PRIMS["sleep"] = real_sleep

    def sleep(secs):
        s = cur()
        if s is not None and s.me() is not None and _called_from_store_1():
            s.yield_point(("sleep", secs))
            return None
        return real_sleep(secs)
    sleep.__wrapped__ = real_sleep
    _time.sleep = sleep


def _called_from_store_1():
    import sys
    f = sys._getframe(2)
    return str(f.f_globals.get("__name__", "")).startswith("hashstore")


@contextlib.contextmanager
def shimmed_primitives(mp_mode=False):
    """While active, threading.Lock/Condition (and the multiprocessing equivalents) construct shims.
    Only used around the store constructor, on the (single) harness thread."""
    saved = (threading.Lock, threading.Condition, multiprocessing.Lock, multiprocessing.Condition,
             multiprocessing.Manager, os.environ.get("USE_MULTIPROCESSING"), threading.RLock, multiprocessing.RLock)
    # (RLock is deliberately NOT shimmed: logging creates RLocks whenever a handler is made)
    threading.Lock, threading.Condition = SLock, SCondition
    multiprocessing.Lock, multiprocessing.Condition = SLock, SCondition
    multiprocessing.Manager = lambda *a, **k: _SManager()
    if mp_mode:
        os.environ["USE_MULTIPROCESSING"] = "True"
    else:
        os.environ.pop("USE_MULTIPROCESSING", None)
    try:
        yield
    finally:
        (threading.Lock, threading.Condition, multiprocessing.Lock, multiprocessing.Condition,
         multiprocessing.Manager) = saved[:5]
        if saved[5] is None:
            os.environ.pop("USE_MULTIPROCESSING", None)
        else:
            os.environ["USE_MULTIPROCESSING"] = saved[5]


def make_owned_store(root, cfg, mp_mode=False):
    return common.make_store(root, cfg, mp_mode=mp_mode)


# ---- choosers -----------------------------------------------------------------------------------

UNTIL_BLOCKED = 10 ** 6


def preemption_chooser(order, preemptions):
    """Non-preemptive by default: the running thread continues while it is runnable; when it blocks or
    finishes the next runnable thread in `order` runs.  `preemptions` = list of (thread_step, to):
    when the RUNNING thread is about to take its thread_step-th step (counting that thread's own
    steps since it was last switched to), control is switched to order-position `to` instead."""
    pre = list(preemptions)
    state = {"run": 0, "used": 0}

    def choose(step, runnable, last, s):
        rank = {i: n for n, i in enumerate(order)}
        by_rank = sorted(runnable, key=lambda t: rank.get(t.idx, 99))
        if last is None or last not in runnable:
            # the running thread blocked or finished: a pending "run until it blocks" marker is consumed
            if last is not None and pre and pre[0][0] >= UNTIL_BLOCKED:
                pre.pop(0)
            state["run"] = 0
            nxt = by_rank[0]
            if pre and pre[0][0] == 0:
                # a zero-step preemption: the thread that would resume does not get to take a step first
                _, to = pre.pop(0)
                others = [t for t in by_rank if t is not nxt]
                if others:
                    state["used"] += 1
                    return others[to % len(others)]
            return nxt
        if pre and state["run"] >= pre[0][0]:
            _, to = pre.pop(0)
            others = [t for t in by_rank if t is not last]
            if others:
                state["run"] = 0
                state["used"] += 1
                return others[to % len(others)]
        state["run"] += 1
        return last
    choose.state = state
    choose.remaining = pre
    return choose


def _identifiers_in(v, depth=0):
    """Identifiers held in a collection; a dict whose values are themselves collections is a REGISTRY of such
    collections (name -> list), not a set of identifiers: look inside."""
    if hasattr(v, "values") and hasattr(v, "keys"):
        vals = list(v.values())
        if vals and depth < 2 and all(hasattr(x, "__len__") and not isinstance(x, (str, bytes)) for x in vals):
            out = []
            for x in vals:
                out += _identifiers_in(x, depth + 1)
            return out
        return list(v.keys())
    return list(v)


def locked_collections(store, suffix=None):
    """Name -> contents of every non-empty collection of locked identifiers of a store instance.  Heuristic
    introspection that survives refactorings of the bookkeeping: any attribute - instance attribute OR class-level
    property - whose name contains 'locked' and whose value is a sized iterable (list, set, dict, manager proxy)."""
    names = set(vars(store))
    for klass in type(store).__mro__:
        for n, v in vars(klass).items():
            if isinstance(v, property):
                names.add(n)
    bad = {}
    for n in sorted(names):
        if "locked" not in n or (suffix and not n.endswith(suffix)):
            continue
        try:
            v = getattr(store, n)
            if callable(v) or isinstance(v, (str, bytes)) or not hasattr(v, "__len__"):
                continue
            items = _identifiers_in(v)
        except Exception as e:  # manager gone, property failing
            items = [f"<unreadable: {type(e).__name__}>"] if suffix else []
        if items:
            bad[n] = [str(x) for x in items]
    return bad


def locks_left(store):
    """Names of locked-identifier collections that are non-empty."""
    return locked_collections(store)
