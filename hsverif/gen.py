"""Shared Hypothesis strategies (constructive, no heavy filtering)."""
import hashlib

from hypothesis import strategies as st

from . import common

BUFS = (4096, 8192)

# ---- contents -----------------------------------------------------------------------------------


def _pat():
    return st.binary(min_size=1, max_size=6).map(lambda b: b.hex())


def boundary_sizes():
    sizes = {0, 1, 2}
    for b in BUFS:
        for k in (1, 2, 3, 4):
            for d in (-1, 0, 1):
                sizes.add(k * b + d)
    # block sizes a refactoring may switch to (16 / 32 / 64 KiB; shutil's copy buffer is 64 KiB, 1 MiB on some platforms)
    for b in (16384, 32768, 65536):
        for d in (-1, 0, 1):
            sizes.add(b + d)
    sizes.update((2 * 65536 + 1, 1048576 + 1))
    return sorted(sizes)


def contents(max_small=48, big=True):
    """Content descriptors (see common.make_content): literal small contents and patterned
    contents whose size sits on / next to a multiple of a read-buffer size."""
    # data-dependent edge cases: line ends only, a trailing newline, text that looks like something the store writes itself (a
    # reference-list line, a digest, the name of its configuration file), digits only, "0e..." (what loose comparisons misread)
    special = st.sampled_from([b"\n", b"\n\n\n", b"\r\n", b"abc\n", b"\nabc", b"hashstore.yaml", b"0e12345678", b"0000000000",
                               b"e3b0c44298fc1c149afbf4c8996fb92427ae41e4649b934ca495991b7852b855", b"pid\npid\n", b"_delete",
                               b"\xff\xfe\x00", b"\xef\xbb\xbf", b"None", b"False", b" "]).map(
        lambda b: {"hex": b[:max(1, max_small)].hex()})
    small = st.one_of(st.binary(min_size=0, max_size=max_small).map(lambda b: {"hex": b.hex()}),
                      st.binary(min_size=0, max_size=max_small).map(lambda b: {"hex": b.hex()}),
                      st.binary(min_size=0, max_size=max_small).map(lambda b: {"hex": b.hex()}), special)
    if not big:
        return small
    sized = st.builds(lambda p, n: {"pat": p, "n": n}, _pat(), st.sampled_from(boundary_sizes()))
    multi = st.builds(lambda p, n: {"pat": p, "n": n}, _pat(), st.integers(8193, 5 * 8192 + 1))
    # NUL bytes: an all-zero object, and data followed by a tail of zero blocks (padded archives, blank images) - what a
    # "skip zero blocks / sparse file" optimisation gets wrong
    zeros = st.builds(lambda head, z: {"zeros": z, "head": head}, st.sampled_from([0, 1, 5000, 8192, 2 * 8192 + 3]),
                      st.sampled_from([1, 4096, 8192, 8193, 3 * 8192, 4 * 8192 + 1]))
    return st.one_of(small, sized, sized, multi, small, sized, sized, multi, zeros)


def size_class(n):
    if n <= 2:
        return f"n{n}"
    for b in BUFS:
        if n % b == 0:
            return f"k*{b}"
        if n % b == 1:
            return f"k*{b}+1"
        if n % b == b - 1:
            return f"k*{b}-1"
    return "multi" if n > 8192 else "small"


# ---- algorithm spellings ------------------------------------------------------------------------

def spellings(name):
    """Accepted spellings of a hashlib algorithm name: lower / UPPER / Title case and '' / '-' /
    '_' at the letter-digit boundary ('-' / '_' for the sha3 family, which needs a separator)."""
    out = []
    if name.startswith("sha3_"):
        bases = ["sha3" + s + name[5:] for s in ("_", "-")]
    elif name.startswith("blake"):
        bases = [name]
    else:
        i = 0
        while not name[i].isdigit():
            i += 1
        bases = [name[:i] + s + name[i:] for s in ("", "-", "_")]
    for b in bases:
        for v in (b, b.upper(), b.capitalize()):
            if v not in out:
                out.append(v)
    return out


def canon(spelling):
    """Independent normaliser: strip separators, lower-case, table lookup."""
    s = spelling.lower().replace("-", "").replace("_", "")
    table = {a.replace("_", ""): a for a in common.ALL_DIGESTS}
    return table.get(s)


def algo_spelling(names=None):
    names = names or common.ALL_DIGESTS
    return st.sampled_from(names).flatmap(lambda n: st.sampled_from(spellings(n)))


# layouts in which depth x width consumes the WHOLE digest (no remainder token): the file name is the last token
EXACT_LAYOUTS = {"MD5": (4, 8), "SHA-1": (5, 8), "SHA-256": (4, 16), "SHA-384": (6, 16), "SHA-512": (8, 16)}


def store_cfgs(vary_layout=False, exact=True):
    if vary_layout:
        plain = st.builds(lambda a, d, w: {"algo": a, "depth": d, "width": w},
                          st.sampled_from(sorted(common.STORE_ALGOS)), st.integers(1, 4), st.integers(1, 3))
        if not exact:
            return plain
        whole = st.sampled_from(sorted(common.STORE_ALGOS)).map(
            lambda a: {"algo": a, "depth": EXACT_LAYOUTS[a][0], "width": EXACT_LAYOUTS[a][1]})
        return st.one_of(plain, plain, plain, plain, plain, plain, plain, whole)
    return st.sampled_from(sorted(common.STORE_ALGOS)).map(lambda a: {"algo": a, "depth": 3, "width": 2})


def digest_of(algo, data):
    return hashlib.new(algo, data).hexdigest()


def case_variant():
    return st.sampled_from(["lower", "upper", "mixed"])


def apply_case(hexstr, how):
    if how == "upper":
        return hexstr.upper()
    if how == "mixed":
        return "".join(c.upper() if i % 2 else c for i, c in enumerate(hexstr))
    return hexstr


def flip_nibble(hexstr, pos=0):
    pos %= len(hexstr)
    c = hexstr[pos]
    r = "0" if c != "0" else "1"
    return hexstr[:pos] + r + hexstr[pos + 1:]


_LOOKALIKE = {"a": "\u0430", "c": "\u0441", "e": "\u0435"}


_TAILS = {}


def content_with_digest_tail(halgo, tail):
    """A short content whose digest under `halgo` ENDS with the hex string `tail` (found by search, cached): file names in
    the store are tails of digests, so code that edits names (suffixes such as '_delete') meets every hex digit there."""
    key = (halgo, tail)
    if key not in _TAILS:
        import hashlib
        i = 0
        while not hashlib.new(halgo, b"tail-%d" % i).hexdigest().endswith(tail):
            i += 1
        _TAILS[key] = {"hex": (b"tail-%d" % i).hex()}
    return _TAILS[key]


def lookalike(hexstr, pos=0):
    """A wrong checksum that LOOKS right: one character replaced by a non-ASCII look-alike (Cyrillic a / c / e, or a
    full-width digit) - what a copy from a rendered page can produce.  Never equal to the true digest."""
    n = len(hexstr)
    for d in range(n):
        i = (pos + d) % n
        ch = hexstr[i]
        if ch in _LOOKALIKE:
            return hexstr[:i] + _LOOKALIKE[ch] + hexstr[i + 1:]
        if ch.isdigit():
            return hexstr[:i] + chr(0xFF10 + int(ch)) + hexstr[i + 1:]
    return hexstr[:-1] + "\u0430"
