import sys
import os, tempfile, logging, hashlib, threading, time, shutil, itertools, json
logging.disable(logging.CRITICAL)
import interp, sched; interp.install()
from hashstore.filehashstore import FileHashStore, ObjectMetadata
base=tempfile.mkdtemp(dir=os.environ.get("PROBE_TMP", "/dev/shm"))
X=b"xx"; Y=b"yyy"
fX=base+"/X"; open(fX,"wb").write(X)
fY=base+"/Y"; open(fY,"wb").write(Y)
cX=hashlib.sha256(X).hexdigest(); cY=hashlib.sha256(Y).hexdigest()
def mkstore(root):
    rl, rc = threading.Lock, threading.Condition
    threading.Lock, threading.Condition = sched.SLock, sched.SCondition
    try: s=FileHashStore(dict(store_path=root, store_depth=2, store_width=2, store_algorithm="SHA-256", store_metadata_namespace="ns"))
    finally: threading.Lock, threading.Condition = rl, rc
    return s
def absstate(root):
    out={}
    for dp,dn,fn in os.walk(root):
        for x in fn:
            p=os.path.join(dp,x); rel=os.path.relpath(p,root)
            if rel=="hashstore.yaml": continue
            parts=rel.split("/")
            if parts[0]=="objects" and parts[1]!="tmp" and "_delete" not in rel: out["obj:"+"".join(parts[1:])]=hashlib.sha256(open(p,"rb").read()).hexdigest()[:8]
            elif parts[:2]==["refs","pids"] and "_delete" not in rel: out["pidref:"+"".join(parts[2:])[:8]]=open(p).read()[:8]
            elif parts[:2]==["refs","cids"] and "_delete" not in rel: out["cidref:"+"".join(parts[2:])[:8]]=open(p).read()
            else: out["RESIDUE:"+rel]=1
    return json.dumps(out, sort_keys=True)
def metaX(): 
    return ObjectMetadata("HashStoreNoPid", cX, len(X), {a: hashlib.new(a, X).hexdigest() for a in ["md5","sha1","sha256","sha384","sha512"]})
MENU={
 "store(p,X)": lambda s: s.store_object("p", fX).cid,
 "store(p,Y)": lambda s: s.store_object("p", fY).cid,
 "store(q,X)": lambda s: s.store_object("q", fX).cid,
 "store(-,X)": lambda s: s.store_object(None, fX).cid,
 "tag(p,X)": lambda s: s.tag_object("p", cX),
 "tag(q,X)": lambda s: s.tag_object("q", cX),
 "del(p)": lambda s: s.delete_object("p"),
 "del(q)": lambda s: s.delete_object("q"),
 "dii(X,bad)": lambda s: s.delete_if_invalid_object(metaX(), "00", "sha256", len(X)),
}
STARTS={
 "empty": lambda s: None,
 "p=X": lambda s: s.store_object("p", fX),
 "p=X,q=X": lambda s: (s.store_object("p", fX), s.store_object("q", fX)),
 "X unref": lambda s: s.store_object(None, fX),
 "r=X": lambda s: s.store_object("r", fX),
}
def call(fn, s):
    try: return ("ok", fn(s))
    except BaseException as e: return ("err", type(e).__name__)
def seq_outcomes(start, names):
    outs=set()
    for perm in itertools.permutations(range(len(names))):
        root=tempfile.mkdtemp(dir=base)+"/s"; s=mkstore(root); STARTS[start](s)
        res=[None]*len(names)
        for i in perm: res[i]=call(MENU[names[i]], s)
        outs.add((str(res), absstate(root)))
        shutil.rmtree(os.path.dirname(root))
    return outs
def run_once(start, names, preempt_at, first):
    root=tempfile.mkdtemp(dir=base)+"/s"
    s=mkstore(root); STARTS[start](s)
    sc=sched.Sched()
    def wrap(fn):
        def g():
            interp.activate(root, lambda n,a: sc.yield_point((n,str(a[0])[-30:])))
            try: return fn(s)
            finally: interp.deactivate()
        return g
    for n in names: sc.add(wrap(MENU[n]))
    def chooser(step, runnable, last):
        t0=sc.ts[first]; t1=sc.ts[1-first]
        if t0 in runnable and t0.nops<preempt_at: return t0
        if t1 in runnable: return t1
        return runnable[0]
    try:
        res=sc.run(chooser)
        res=[("ok",r[1]) if r[0]=="ok" else ("err",r[1]) for r in res]
    except sched.Deadlock as d: res="DEADLOCK"
    st=absstate(root)
    locks=(list(s.object_locked_pids_th), list(s.object_locked_cids_th), list(s.reference_locked_pids_th))
    shutil.rmtree(os.path.dirname(root))
    return str(res), st, sc.ts[first].nops, locks
t0=time.time(); total=0; findings={}
names=list(MENU)
for start in STARTS:
    for a,b in itertools.combinations_with_replacement(names,2):
        pair=[a,b]
        seq=seq_outcomes(start,pair)
        for first in (0,1):
            _,_,nops,_=run_once(start,pair,10**9,first)
            for k in range(nops+1):
                res,st,_,locks=run_once(start,pair,k,first); total+=1
                if (res,st) not in seq or any(locks):
                    if "StoreObjectForPidAlreadyInProgress" in res: 
                        findings.setdefault((start,a,b,"INPROGRESS"),[]).append((first,k)); continue
                    findings.setdefault((start,a,b,res, "LOCKS" if any(locks) else ""),[]).append((first,k,st))
print("total runs",total,"time",round(time.time()-t0,1))
for k,v in findings.items():
    print(k, len(v), v[0][:2])
    if k[3]!="INPROGRESS": print("      state:", v[0][2][:300])
