import sys
SRC=sys.argv[1] if len(sys.argv)>1 else None
if SRC: sys.path.insert(0,SRC)
import io, os, tempfile, hashlib, shutil, logging, collections, time
logging.disable(logging.CRITICAL)
import interp; interp.install()
import hashstore.filehashstore as F
from hashstore.filehashstore import FileHashStore
print("using", F.__file__)
base=tempfile.mkdtemp(dir="/dev/shm")
X=b"x"*9000; Y=b"y"*100; M1=b"<m1/>"*10; M2=b"<m2/>"*3000
fs={}
for n,v in dict(X=X,Y=Y,M1=M1,M2=M2).items():
    fs[n]=base+"/"+n; open(fs[n],"wb").write(v)
PROPS=lambda root: dict(store_path=root, store_depth=2, store_width=2, store_algorithm="SHA-256", store_metadata_namespace="ns")
def H(b): return hashlib.sha256(b).hexdigest()
STARTS={
 "others": lambda s: (s.store_object("o1", fs["Y"]), s.store_metadata("o1", fs["M1"])),
 "others+t=X": lambda s: (s.store_object("o1", fs["Y"]), s.store_metadata("o1", fs["M1"]), s.store_object("t", fs["X"]), s.store_metadata("t", fs["M1"]), s.store_metadata("t", fs["M1"], "f2")),
 "others+o2=X": lambda s: (s.store_object("o1", fs["Y"]), s.store_metadata("o1", fs["M1"]), s.store_object("o2", fs["X"]), s.store_metadata("o2", fs["M1"])),
 "o2=X,t=X": lambda s: (s.store_object("o2", fs["X"]), s.store_metadata("o2", fs["M1"]), s.store_object("t", fs["X"]), s.store_metadata("t", fs["M2"])),
 "X unref": lambda s: (s.store_object("o1", fs["Y"]), s.store_object(None, fs["X"])),
}
CALLS={
 "store(t,X)": lambda s: s.store_object("t", fs["X"]),
 "tag(t,X)": lambda s: s.tag_object("t", H(X)),
 "delete(t)": lambda s: s.delete_object("t"),
 "smeta(t,M2)": lambda s: s.store_metadata("t", fs["M2"]),
 "dmeta(t)": lambda s: s.delete_metadata("t"),
 "dmeta(t,ns)": lambda s: s.delete_metadata("t","ns"),
}
SCEN=[("others","store(t,X)"),("others+o2=X","store(t,X)"),("X unref","store(t,X)"),("X unref","tag(t,X)"),("others+o2=X","tag(t,X)"),
      ("others+t=X","delete(t)"),("o2=X,t=X","delete(t)"),("others+t=X","smeta(t,M2)"),("others","smeta(t,M2)"),("others+t=X","dmeta(t)"),("others+t=X","dmeta(t,ns)")]
OTHERS={"o1":(Y,{"ns":M1}),"o2":(X,{"ns":M1})}
def view(s, pid, fmts=("ns","f2")):
    try: st=s.retrieve_object(pid); b=st.read(); st.close(); o=("ok",H(b))
    except Exception as e: o=("err",type(e).__name__)
    md={}
    for f in fmts:
        try: st=s.retrieve_metadata(pid,f); md[f]=H(st.read()); st.close()
        except Exception as e: md[f]=None
    return o, md
def refs_view(root):
    out={}
    for dp,dn,fn in os.walk(root+"/refs"):
        for x in fn: p=os.path.join(dp,x); out[os.path.relpath(p,root)]=open(p).read()
    return out
issues=collections.Counter(); examples={}; total=0; t0=time.time()
for start,call in SCEN:
    tmpl=tempfile.mkdtemp(dir=base)+"/s"; s0=FileHashStore(PROPS(tmpl)); STARTS[start](s0)
    before={p:view(s0,p) for p in ("o1","o2")}
    # dry run count
    d=tempfile.mkdtemp(dir=base); shutil.copytree(tmpl,d+"/s"); s=FileHashStore(PROPS(d+"/s")); n=[0]
    interp.activate(d+"/s", lambda nm,a: n.__setitem__(0,n[0]+1)); CALLS[call](s); interp.deactivate(); N=n[0]; shutil.rmtree(d)
    for k in range(N+1):
        d=tempfile.mkdtemp(dir=base); root=d+"/s"; shutil.copytree(tmpl,root); total+=1
        pid=os.fork()
        if pid==0:
            try:
                s=FileHashStore(PROPS(root)); c=[0]
                def cb(nm,a):
                    if c[0]==k: os._exit(17)
                    c[0]+=1
                interp.activate(root, cb); CALLS[call](s); os._exit(0)
            except BaseException as e:
                os._exit(33)
        _,status=os.waitpid(pid,0); code=os.WEXITSTATUS(status)
        s=FileHashStore(PROPS(root))
        after={p:view(s,p) for p in ("o1","o2")}
        def note(kind, detail):
            issues[(start,call,kind)]+=1; examples.setdefault((start,call,kind),(k,N,detail))
        if code not in (0,17): note("child-error", code)
        if after!=before: note("others-changed", (before,after))
        tv,tm=view(s,"t")
        exp_bytes = H(X)
        if tv[0]=="ok" and tv[1]!=exp_bytes: note("wrong-bytes", tv)
        if tv[0]=="err" and tv[1] not in ("PidRefsDoesNotExist","OrphanPidRefsFileFound","PidNotFoundInCidRefsFile","RefsFileExistsButCidObjMissing"): note("odd-error", tv)
        # metadata of t: each doc either a supplied version or absent
        for f,h in tm.items():
            if h is not None and h not in (H(M1),H(M2)): note("meta-garbage",(f,h))
        # recovery
        try: s.delete_object("t"); dres="ok"
        except Exception as e: dres=type(e).__name__
        if dres not in ("ok","PidRefsDoesNotExist"): note("recovery-delete-failed", dres)
        try:
            s.store_object("t", fs["X"]); st=s.retrieve_object("t"); ok=H(st.read())==H(X); st.close()
            if not ok: note("recovery-wrong-bytes","")
        except Exception as e: note("recovery-store-failed", type(e).__name__+": "+str(e)[:100])
        after2={p:view(s,p) for p in ("o1","o2")}
        if after2!=before: note("others-changed-after-recovery", (before,after2))
        shutil.rmtree(d)
    shutil.rmtree(os.path.dirname(tmpl))
print("crash points",total,"time",round(time.time()-t0,1))
for k,v in sorted(issues.items()): print(k,v,"first at k/N:",examples[k][0],"/",examples[k][1], str(examples[k][2])[:200])
shutil.rmtree(base)
