"""Throw-away: random sequential histories, crude model vs implementation, to calibrate the model."""
import io, os, sys, tempfile, hashlib, shutil, logging, random, collections, json
logging.disable(logging.CRITICAL)
from hashstore.filehashstore import FileHashStore, ObjectMetadata
base=tempfile.mkdtemp(dir="/dev/shm")
D,W=2,2
def H(s): return hashlib.sha256(s.encode() if isinstance(s,str) else s).hexdigest()
def shard(h): return [h[i*W:(i+1)*W] for i in range(D)]+[h[D*W:]]
CONT={"X":b"x"*10,"Y":b"y"*5000,"Z":b""}
files={}
for k,v in CONT.items():
    files[k]=base+"/"+k; open(files[k],"wb").write(v)
CID={k:H(v) for k,v in CONT.items()}; CID["N"]=H(b"never")
PIDS=["a","ab","b","a/b"]
FMTS=[None,"ns","c","bc"]
ALREADY={"HashStoreRefsAlreadyExists","PidRefsAlreadyExistsError"}
class Model:
    def __init__(s): s.objs=set(); s.pidref={}; s.cidref={}; s.meta={}
    def tag(s,pid,cid):
        if pid in s.pidref: return ("err",ALREADY)
        s.pidref[pid]=cid; l=s.cidref.setdefault(cid,[])
        if pid not in l: l.append(pid)
        return ("ok",None)
    def store(s,pid,c,valid):
        cid=CID[c]
        if pid is None: s.objs.add(cid); return ("ok",cid)
        if valid=="badsum": return ("err",{"NonMatchingChecksum"})
        if valid=="badsize": return ("err",{"NonMatchingObjSize"})
        s.objs.add(cid); r=s.tag(pid,cid)
        return r if r[0]=="err" else ("ok",cid)
    def delete(s,pid):
        if pid not in s.pidref: return ("err",{"PidRefsDoesNotExist"})
        cid=s.pidref.pop(pid)
        if cid in s.cidref and pid in s.cidref[cid]:
            s.cidref[cid].remove(pid)
            if not s.cidref[cid]:
                del s.cidref[cid]; s.objs.discard(cid)
        for k in [k for k in s.meta if k[0]==pid]: del s.meta[k]
        return ("ok",None)
    def dii(s,c,valid):
        cid=CID[c]
        if valid=="good": return ("ok",None)
        if cid not in s.cidref:
            if cid not in s.objs: return ("err",{"NonMatchingChecksum","NonMatchingObjSize","FileNotFoundError"})
            s.objs.discard(cid)
        return ("err",{"NonMatchingChecksum"} if valid=="badsum" else {"NonMatchingObjSize"})
    def retrieve(s,pid):
        if pid not in s.pidref: return ("err",{"PidRefsDoesNotExist"})
        cid=s.pidref[pid]
        if cid not in s.cidref: return ("err",{"OrphanPidRefsFileFound"})
        if pid not in s.cidref[cid]: return ("err",{"PidNotFoundInCidRefsFile"})
        if cid not in s.objs: return ("err",{"RefsFileExistsButCidObjMissing"})
        return ("ok",cid)
    def image(s):
        out={}
        for cid in s.objs: out["obj/"+cid]=cid
        for p,c in s.pidref.items(): out["pid/"+H(p)]=c
        for c,l in s.cidref.items(): out["cid/"+c]="".join(x+"\n" for x in l)
        for (p,f),b in s.meta.items(): out["meta/"+H(p)+"/"+H(p+f)]=H(b)
        return out
def alpha(root):
    out={}
    for dp,dn,fn in os.walk(root):
        for x in fn:
            p=os.path.join(dp,x); rel=os.path.relpath(p,root); parts=rel.split("/")
            if rel=="hashstore.yaml": continue
            if "tmp" in parts[:3] or x.endswith("_delete"): out["RESIDUE/"+rel]=1; continue
            if parts[0]=="objects": out["obj/"+"".join(parts[1:])]=H(open(p,"rb").read())
            elif parts[:2]==["refs","pids"]: out["pid/"+"".join(parts[2:])]=open(p).read()
            elif parts[:2]==["refs","cids"]: out["cid/"+"".join(parts[2:])]=open(p).read()
            elif parts[0]=="metadata": out["meta/"+"".join(parts[1:1+D+1])+"/"+parts[-1]]=H(open(p,"rb").read())
            else: out["RESIDUE/"+rel]=1
    return out
def run(seed, steps=25):
    rnd=random.Random(seed)
    root=tempfile.mkdtemp(dir=base)+"/s"
    s=FileHashStore(dict(store_path=root, store_depth=D, store_width=W, store_algorithm="SHA-256", store_metadata_namespace="ns"))
    m=Model(); hist=[]
    for i in range(steps):
        op=rnd.choice(["store","store","storenp","tag","delete","delete","dii","retrieve","smeta","rmeta","dmeta","dmetaall"])
        pid=rnd.choice(PIDS); c=rnd.choice("XYZ"); 
        try:
            if op=="store":
                valid=rnd.choice(["none","good","badsum","badsize"])
                kw={}
                if valid in("good","badsum"): kw=dict(checksum=("00" if valid=="badsum" else hashlib.md5(CONT[c]).hexdigest()), checksum_algorithm="md5")
                if valid=="badsize": kw=dict(expected_object_size=len(CONT[c])+1)
                hist.append((op,pid,c,valid)); exp=m.store(pid,c,valid); got=("ok",s.store_object(pid, files[c], **kw).cid)
            elif op=="storenp":
                hist.append((op,c)); exp=m.store(None,c,None); got=("ok",s.store_object(None, files[c]).cid)
            elif op=="tag":
                ck=rnd.choice("XYZN"); hist.append((op,pid,ck)); exp=m.tag(pid,CID[ck]); got=("ok",s.tag_object(pid,CID[ck]))
            elif op=="delete":
                hist.append((op,pid)); exp=m.delete(pid); got=("ok",s.delete_object(pid))
            elif op=="dii":
                valid=rnd.choice(["good","badsum","badsize"]); hist.append((op,c,valid))
                om=ObjectMetadata("HashStoreNoPid",CID[c],len(CONT[c]),{a:hashlib.new(a,CONT[c]).hexdigest() for a in ["md5","sha1","sha256","sha384","sha512"]})
                exp=m.dii(c,valid)
                got=("ok",s.delete_if_invalid_object(om, "00" if valid=="badsum" else om.hex_digests["sha1"], "sha1", len(CONT[c])+(1 if valid=="badsize" else 0) or None))
            elif op=="retrieve":
                hist.append((op,pid)); exp=m.retrieve(pid); st=s.retrieve_object(pid); got=("ok",H(st.read())); st.close()
            elif op=="smeta":
                f=rnd.choice(FMTS); hist.append((op,pid,f,c)); m.meta[(pid,f or "ns")]=CONT[c]; exp=("ok","any"); got=("ok",s.store_metadata(pid, files[c], f)); got=("ok","any")
            elif op=="rmeta":
                f=rnd.choice(FMTS); hist.append((op,pid,f)); exp=("ok",H(m.meta[(pid,f or "ns")])) if (pid,f or "ns") in m.meta else ("err",{"ValueError"}); st=s.retrieve_metadata(pid,f); got=("ok",H(st.read())); st.close()
            elif op=="dmeta":
                f=rnd.choice(FMTS[1:]); hist.append((op,pid,f)); m.meta.pop((pid,f),None); exp=("ok",None); got=("ok",s.delete_metadata(pid,f))
            elif op=="dmetaall":
                hist.append((op,pid)); [m.meta.pop(k) for k in [k for k in m.meta if k[0]==pid]]; exp=("ok",None); got=("ok",s.delete_metadata(pid))
        except Exception as e:
            got=("err",type(e).__name__)
        okres = (exp[0]==got[0]) and (got[1] in exp[1] if exp[0]=="err" else (exp[1] in ("any",got[1]) ))
        a=alpha(root); im=m.image()
        if not okres or a!=im:
            diff={k:(a.get(k),im.get(k)) for k in set(a)|set(im) if a.get(k)!=im.get(k)}
            shutil.rmtree(os.path.dirname(root)); return (hist, exp, got, {k:(str(v[0])[:20],str(v[1])[:20]) for k,v in list(diff.items())[:4]})
    shutil.rmtree(os.path.dirname(root)); return None
fails=collections.OrderedDict()
N=int(sys.argv[1]) if len(sys.argv)>1 else 1500
for seed in range(N):
    r=run(seed)
    if r:
        hist,exp,got,diff=r
        key=(hist[-1][0], str(exp)[:60], str(got)[:60], tuple(sorted(k.split("/")[0] for k in diff)))
        fails.setdefault(key,[]).append((seed,hist))
print("fail classes:",len(fails), "of", N, "runs; failing runs", sum(len(v) for v in fails.values()))
for k,v in fails.items():
    print(k, len(v)); print("    shortest:", min(v,key=lambda x:len(x[1])))
shutil.rmtree(base)
