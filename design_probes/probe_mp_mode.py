import io, os, tempfile, hashlib, logging
os.environ["USE_MULTIPROCESSING"]="True"
logging.disable(logging.CRITICAL)
from hashstore.filehashstore import FileHashStore
root = tempfile.mkdtemp(dir=os.environ.get("PROBE_TMP", "/dev/shm"))
s=FileHashStore(dict(store_path=root+"/s", store_depth=3, store_width=2, store_algorithm="SHA-256", store_metadata_namespace="ns:default"))
print("use_mp", s.use_multiprocessing, hasattr(s,"object_pid_condition_mp"), hasattr(s,"object_pid_condition_th"))
f=root+"/data"; open(f,"wb").write(b"abc")
for name,fn in [("store_object", lambda: s.store_object("p", f)), ("store_metadata", lambda: s.store_metadata("p", f)), ("delete_metadata", lambda: s.delete_metadata("p")), ("delete_object", lambda: s.delete_object("p")), ("tag", lambda: s.tag_object("p","ab"*32)), ("store_nopid", lambda: s.store_object(None, f)), ("retrieve_md", lambda: s.retrieve_metadata("p"))]:
    try: print(name, fn())
    except Exception as e: print(name, "ERR", type(e).__name__, str(e)[:120])
