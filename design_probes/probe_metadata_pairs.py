import sys, os, tempfile, logging, hashlib, threading, time, shutil, itertools
logging.disable(logging.CRITICAL)
import interp, sched; interp.install()
from hashstore.filehashstore import FileHashStore
base=tempfile.mkdtemp(dir=os.environ.get("PROBE_TMP", "/dev/shm"))
f1=base+"/v1"; open(f1,"wb").write(b"v1"*3)
f2=base+"/v2"; open(f2,"wb").write(b"v2"*3)
fo=base+"/o"; open(fo,"wb").write(b"obj")
def mkstore(root):
    rl, rc = threading.Lock, threading.Condition
    threading.Lock, threading.Condition = sched.SLock, sched.SCondition
    try: s=FileHashStore(dict(store_path=root, store_depth=2, store_width=2, store_algorithm="SHA-256", store_metadata_namespace="ns"))
    finally: threading.Lock, threading.Condition = rl, rc
    return s
def run_once(setup, calls, preempt_at, first):
    root=tempfile.mkdtemp(dir=base)+"/s"
    s=mkstore(root); setup(s)
    sc=sched.Sched()
    def wrap(fn):
        def g():
            interp.activate(root, lambda n,a: sc.yield_point((n,str(a[0])[-30:])))
            try: return fn(s)
            finally: interp.deactivate()
        return g
    for c in calls: sc.add(wrap(c))
    def chooser(step, runnable, last):
        t0=sc.ts[first]; t1=sc.ts[1-first]
        if t0 in runnable and t0.nops<preempt_at: return t0
        if t1 in runnable: return t1
        return runnable[0]
    try: res=sc.run(chooser)
    except sched.Deadlock as d: res=("DEADLOCK", d)
    try: b=s.retrieve_metadata("p","f").read(); r2=("ok",b)
    except Exception as e: r2=("ERR",type(e).__name__)
    resid=[os.path.join(dp,x) for dp,_,fn in os.walk(root) for x in fn if "_delete" in x or "/tmp" in dp]
    shutil.rmtree(os.path.dirname(root))
    return res, r2, sc.ts[first].nops, resid
def sweep(label, setup, calls):
    outs={}
    n=0
    for first in (0,1):
        _,_,nops,_=run_once(setup, calls, 10**9, first)
        for k in range(nops+1):
            res,r2,_,resid=run_once(setup, calls, k, first); n+=1
            key=(str([r[:2] for r in res]), str(r2), len(resid))
            outs.setdefault(key, []).append((first,k))
    print("==",label,"runs",n)
    for k,v in outs.items(): print("   ",k, len(v), v[:3])
def st(s): s.store_object("p", fo); s.store_metadata("p", f1, "f")
def st2(s): s.store_object("p", fo); s.store_metadata("p", f1, "f"); s.store_metadata("p", f1, "g")
sweep("del(f)||del(f)", st, [lambda s: s.delete_metadata("p","f"), lambda s: s.delete_metadata("p","f")])
sweep("del(all)||del(all)", st, [lambda s: s.delete_metadata("p"), lambda s: s.delete_metadata("p")])
sweep("del(all)||del(f)", st, [lambda s: s.delete_metadata("p"), lambda s: s.delete_metadata("p","f")])
sweep("store(v2)||del(f)", st, [lambda s: s.store_metadata("p",f2,"f") and 1, lambda s: s.delete_metadata("p","f")])
sweep("store(v2)||del(all)", st, [lambda s: s.store_metadata("p",f2,"f") and 1, lambda s: s.delete_metadata("p")])
sweep("store(v2)||delete_object", st, [lambda s: s.store_metadata("p",f2,"f") and 1, lambda s: s.delete_object("p")])
sweep("del(all)||delete_object", st, [lambda s: s.delete_metadata("p"), lambda s: s.delete_object("p")])
sweep("retrieve||del(f)", st, [lambda s: s.retrieve_metadata("p","f").read(), lambda s: s.delete_metadata("p","f")])
sweep("retrieve||store(v2)", st, [lambda s: s.retrieve_metadata("p","f").read(), lambda s: s.store_metadata("p",f2,"f") and 1])
sweep("store(v1)||store(v2) absent", lambda s: None, [lambda s: s.store_metadata("p",f1,"f") and 1, lambda s: s.store_metadata("p",f2,"f") and 1])
