import sys
SRC=sys.argv[1] if len(sys.argv)>1 and sys.argv[1]!="-" else None
if SRC: sys.path.insert(0,SRC)
import io, os, errno, tempfile, hashlib, shutil, logging, collections, time
logging.disable(logging.CRITICAL)
import interp; interp.install()
import hashstore.filehashstore as F
from hashstore.filehashstore import FileHashStore
print("using", F.__file__)
base=tempfile.mkdtemp(dir="/dev/shm")
X=b"x"*9000; Y=b"y"*100; M1=b"<m1/>"*10; M2=b"<m2/>"*3000
fs={}
for n,v in dict(X=X,Y=Y,M1=M1,M2=M2).items():
    fs[n]=base+"/"+n; open(fs[n],"wb").write(v)
PROPS=lambda root: dict(store_path=root, store_depth=2, store_width=2, store_algorithm="SHA-256", store_metadata_namespace="ns")
def H(b): return hashlib.sha256(b).hexdigest()
STARTS={
 "others": lambda s: (s.store_object("o1", fs["Y"]), s.store_metadata("o1", fs["M1"])),
 "others+t=X": lambda s: (s.store_object("o1", fs["Y"]), s.store_metadata("o1", fs["M1"]), s.store_object("t", fs["X"]), s.store_metadata("t", fs["M1"]), s.store_metadata("t", fs["M1"], "f2")),
 "others+o2=X": lambda s: (s.store_object("o1", fs["Y"]), s.store_metadata("o1", fs["M1"]), s.store_object("o2", fs["X"]), s.store_metadata("o2", fs["M1"])),
 "o2=X,t=X": lambda s: (s.store_object("o2", fs["X"]), s.store_metadata("o2", fs["M1"]), s.store_object("t", fs["X"]), s.store_metadata("t", fs["M2"])),
 "X unref": lambda s: (s.store_object("o1", fs["Y"]), s.store_object(None, fs["X"])),
}
CALLS={
 "store(t,X)": lambda s: s.store_object("t", fs["X"]),
 "tag(t,X)": lambda s: s.tag_object("t", H(X)),
 "delete(t)": lambda s: s.delete_object("t"),
 "smeta(t,M2)": lambda s: s.store_metadata("t", fs["M2"]),
 "dmeta(t)": lambda s: s.delete_metadata("t"),
 "dmeta(t,ns)": lambda s: s.delete_metadata("t","ns"),
}
SCEN=[("others","store(t,X)"),("others+o2=X","store(t,X)"),("X unref","store(t,X)"),("X unref","tag(t,X)"),("others+o2=X","tag(t,X)"),
      ("others+t=X","delete(t)"),("o2=X,t=X","delete(t)"),("others+t=X","smeta(t,M2)"),("others","smeta(t,M2)"),("others+t=X","dmeta(t)"),("others+t=X","dmeta(t,ns)")]
NOSITE=("stat","lstat","listdir","scandir","access")
def view(s, pid, fmts=("ns","f2")):
    try: st=s.retrieve_object(pid); b=st.read(); st.close(); o=("ok",H(b))
    except Exception as e: o=("err",type(e).__name__)
    md={}
    for f in fmts:
        try: st=s.retrieve_metadata(pid,f); md[f]=H(st.read()); st.close()
        except Exception as e: md[f]=None
    return o, md
issues=collections.Counter(); examples={}; total=0; t0=time.time(); outcomes=collections.Counter()
for start,call in SCEN:
    tmpl=tempfile.mkdtemp(dir=base)+"/s"; s0=FileHashStore(PROPS(tmpl)); STARTS[start](s0)
    before={p:view(s0,p) for p in ("o1","o2")}; tbefore=view(s0,"t")
    # fault-free run for reference
    d=tempfile.mkdtemp(dir=base); shutil.copytree(tmpl,d+"/s"); s=FileHashStore(PROPS(d+"/s")); ops=[]
    interp.activate(d+"/s", lambda nm,a: ops.append((nm,str(a[0])))); CALLS[call](s); interp.deactivate(); tgood=view(s,"t"); shutil.rmtree(d)
    sites=[i for i,(nm,p) in enumerate(ops) if nm.split(":")[0] not in NOSITE]
    for k in sites:
      for mode in ("oneoff","sticky"):
        d=tempfile.mkdtemp(dir=base); root=d+"/s"; shutil.copytree(tmpl,root); total+=1
        s=FileHashStore(PROPS(root)); c=[0]; stick=[None]; fired=[None]
        def cb(nm,a):
            i=c[0]; c[0]+=1
            p=os.path.abspath(str(a[0]))
            if i==k:
                fired[0]=(nm,os.path.relpath(p,root)[:40])
                if mode=="sticky": stick[0]=p
                raise OSError(errno.EIO,"injected",p)
            if stick[0] is not None and p==stick[0] and nm.split(":")[0] not in NOSITE: raise OSError(errno.EIO,"injected-sticky",p)
        interp.activate(root, cb)
        try: CALLS[call](s); res="ok"
        except BaseException as e: res=type(e).__name__
        interp.deactivate()
        def note(kind, detail=""):
            key=(start,call,mode,kind, fired[0][0] if fired[0] else None); issues[key]+=1; examples.setdefault(key,(k,fired[0],detail))
        outcomes[(call,mode,"raised" if res!="ok" else "ok")]+=1
        locks=[list(s.object_locked_pids_th),list(s.object_locked_cids_th),list(s.metadata_locked_docs_th),list(s.reference_locked_pids_th)]
        if any(locks): note("lock-leak",locks)
        s2=FileHashStore(PROPS(root))
        after={p:view(s2,p) for p in ("o1","o2")}
        if after!=before: note("others-changed",(before,after))
        tv=view(s2,"t")
        if res=="ok":
            if tv!=tgood: note("success-but-not-whole-effect",(tv,tgood))
        else:
            if call.startswith(("store(","tag(")):
                if tv[0][0]=="ok" and tbefore[0][0]!="ok": note("failed-but-bound", res)
                else:
                    try: CALLS[call](s2); 
                    except BaseException as e: note("retry-failed", type(e).__name__+":"+str(e)[:80])
                    else:
                        if view(s2,"t")[0]!=("ok",H(X)): note("retry-wrong","")
            if call.startswith("smeta"):
                if tv[1]!=tbefore[1]: note("failed-smeta-prev-version-changed",(tv[1],tbefore[1]))
        shutil.rmtree(d)
    shutil.rmtree(os.path.dirname(tmpl))
print("fault runs",total,"time",round(time.time()-t0,1))
for k,v in sorted(outcomes.items()): print("  outcome",k,v)
for k,v in sorted(issues.items(), key=str): print(k,v,"first:",str(examples[k])[:260])
shutil.rmtree(base)
