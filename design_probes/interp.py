"""Prototype: global fs-op interposer with thread-local activation."""
import os, io, builtins, fcntl, threading, shutil, pathlib, tempfile
_real = {}
_tls = threading.local()
OS_FUNCS = ["stat","lstat","rename","replace","remove","unlink","mkdir","rmdir","chmod","listdir","scandir","open","truncate","link","symlink","utime","access"]
class Ctx:
    def __init__(self, root, on_op):
        self.root=os.path.realpath(root); self.on_op=on_op; self.depth=0
def _under(ctx, p):
    try:
        if isinstance(p,int): return False
        p=os.fspath(p)
        if isinstance(p,bytes): p=p.decode()
        return os.path.abspath(p).startswith(ctx.root)
    except Exception: return False
def _wrap(name, real, patharg=0):
    def w(*a, **k):
        ctx=getattr(_tls,"ctx",None)
        if ctx is None or ctx.depth>0 or not a or not _under(ctx,a[patharg]):
            return real(*a, **k)
        ctx.on_op(name, a)
        ctx.depth+=1
        try: return real(*a, **k)
        finally: ctx.depth-=1
    w.__name__=name
    return w
class FileProxy:
    def __init__(self, f, ctx, path): self.__dict__.update(_f=f,_ctx=ctx,_path=path)
    def __getattr__(self, n): return getattr(self._f, n)
    def __setattr__(self,n,v): setattr(self._f,n,v)
    def __iter__(self): return iter(self._f)
    def __enter__(self): self._f.__enter__(); return self
    def __exit__(self,*a):
        self._ctx.on_op("f.close",(self._path,)); return self._f.__exit__(*a)
    def write(self,d): self._ctx.on_op("f.write",(self._path,len(d))); return self._f.write(d)
    def writelines(self,d): self._ctx.on_op("f.writelines",(self._path,)); return self._f.writelines(d)
    def truncate(self,*a): self._ctx.on_op("f.truncate",(self._path,)); return self._f.truncate(*a)
    def close(self): self._ctx.on_op("f.close",(self._path,)); return self._f.close()
def _open_wrap(real):
    def w(file, mode="r", *a, **k):
        ctx=getattr(_tls,"ctx",None)
        if ctx is None or ctx.depth>0 or not _under(ctx,file):
            return real(file, mode, *a, **k)
        ctx.on_op("open:"+mode,(file,))
        ctx.depth+=1
        try: f=real(file, mode, *a, **k)
        finally: ctx.depth-=1
        if any(c in mode for c in "wax+"): return FileProxy(f, ctx, os.fspath(file))
        return f
    return w
def install():
    if _real: return
    for n in OS_FUNCS:
        _real[n]=getattr(os,n); setattr(os,n,_wrap(n,_real[n]))
    _real["bopen"]=builtins.open; w=_open_wrap(builtins.open); builtins.open=w; io.open=w
    _real["flock"]=fcntl.flock
def activate(root,on_op): _tls.ctx=Ctx(root,on_op)
def deactivate(): _tls.ctx=None
