import sys, os, tempfile, logging, hashlib
logging.disable(logging.CRITICAL)
import interp; interp.install()
from hashstore.filehashstore import FileHashStore
root=tempfile.mkdtemp(dir=os.environ.get("PROBE_TMP", "/dev/shm"))
s=FileHashStore(dict(store_path=root+"/s", store_depth=3, store_width=2, store_algorithm="SHA-256", store_metadata_namespace="ns:default"))
f=root+"/data"; open(f,"wb").write(b"abc"*10000)
ops=[]
def rec(name,a):
    p=str(a[0]); ops.append((name, p.replace(root+"/s/","")[:60]))
def run(label, fn):
    ops.clear(); interp.activate(root+"/s", rec)
    try: r=fn()
    except Exception as e: r="ERR "+type(e).__name__
    interp.deactivate(); print("==",label, len(ops), str(r)[:60])
    for o in ops: print("   ",o)
run("store p1", lambda: s.store_object("p1", f).cid)
run("store p2 dup", lambda: s.store_object("p2", f).cid)
run("store_metadata", lambda: s.store_metadata("p1", f))
run("delete p1", lambda: s.delete_object("p1"))
run("delete p2", lambda: s.delete_object("p2"))
