import io, os, tempfile, hashlib, shutil, logging
logging.disable(logging.CRITICAL)
from hashstore.filehashstore import FileHashStore, ObjectMetadata
def mk(algo="SHA-256", d=3, w=2):
    root = tempfile.mkdtemp(dir=os.environ.get("PROBE_TMP", "/dev/shm"))
    return FileHashStore(dict(store_path=root+"/s", store_depth=d, store_width=w, store_algorithm=algo, store_metadata_namespace="ns:default")), root
def tree(root):
    out=[]
    for dp,dn,fn in os.walk(root):
        for f in fn:
            p=os.path.join(dp,f); out.append((os.path.relpath(p,root), open(p,'rb').read()[:80]))
    return sorted(out)

print("--- 1. BytesIO")
s,root=mk()
try:
    print(s.store_object("p1", io.BytesIO(b"hello")))
except Exception as e: print("ERR", type(e).__name__, e)
try:
    print(s.store_object("p1b", io.BufferedReader(io.BytesIO(b"hello"))))
except Exception as e: print("ERR", type(e).__name__, e)
try:
    print(s.store_object(None, io.BytesIO(b"hello")))
except Exception as e: print("ERR", type(e).__name__, e)
try:
    print(s.store_metadata("p1", io.BytesIO(b"hello")))
except Exception as e: print("ERR", type(e).__name__, e)

print("--- 2. default algo list drift")
f=root+"/data"; open(f,"wb").write(b"abc")
m=s.store_object("p2", f, additional_algorithm="sha224")
print(sorted(m.hex_digests))
open(f,"wb").write(b"abcd")
m=s.store_object("p3", f)
print(sorted(m.hex_digests))

print("--- 3. tag to never-stored cid then delete")
s,root=mk()
cid=hashlib.sha256(b"nothing").hexdigest()
s.tag_object("px", cid)
try:
    s.delete_object("px"); print("delete ok")
except Exception as e: print("ERR", type(e).__name__, e)
for t in tree(root): print(t)
try:
    s.delete_object("px"); print("delete2 ok")
except Exception as e: print("ERR", type(e).__name__, e)
for t in tree(root): print(t)
print(s.object_locked_pids_th, s.object_locked_cids_th, s.reference_locked_pids_th)

print("--- 4. delete_if_invalid with upper-case checksum non-default algo")
s,root=mk()
f=root+"/data"; open(f,"wb").write(b"abc")
m=s.store_object(None, f)
try:
    s.delete_if_invalid_object(m, hashlib.sha3_256(b"abc").hexdigest().upper(), "sha3_256", 3); print("valid")
except Exception as e: print("ERR", type(e).__name__)
print("object present:", s._exists("objects", m.cid))
m=s.store_object(None, f)
try:
    s.delete_if_invalid_object(m, hashlib.sha256(b"abc").hexdigest().upper(), "sha256", 3); print("valid")
except Exception as e: print("ERR", type(e).__name__)
print("object present:", s._exists("objects", m.cid))
# store_object with uppercase checksum
for algo in ["sha256","SHA-256","sha3_256","SHA3-256", "sha3-256", "SHA3_256", "blake2b", "BLAKE2B", "sha-224", "SHA_224", "sha_1", "SHA-1", "md-5", "MD_5"]:
    try:
        c=s._clean_algorithm(algo)
        dg=hashlib.new(c, b"abc").hexdigest().upper()
        pid="q"+algo
        m=s.store_object(pid, f, checksum=dg, checksum_algorithm=algo); print(algo, "ok", c in m.hex_digests)
    except Exception as e: print(algo, "ERR", type(e).__name__, str(e)[:100])
