"""Prototype cooperative scheduler owning store locks; schedule = list of ints."""
import threading, time
_real_Semaphore = threading.Semaphore
_real_Thread = threading.Thread
class Deadlock(Exception): pass
class T:
    def __init__(self, idx, fn): self.idx=idx; self.fn=fn; self.state="ready"; self.sem=_real_Semaphore(0); self.result=None; self.pending=None; self.nops=0
class Sched:
    cur = None  # class-level current scheduler
    def __init__(self): self.ts=[]; self.sem=_real_Semaphore(0); self.by_ident={}; self.trace=[]
    def me(self): return self.by_ident.get(threading.get_ident())
    def add(self, fn): self.ts.append(T(len(self.ts), fn))
    def _body(self, t):
        self.by_ident[threading.get_ident()] = t
        t.sem.acquire()
        try: t.result=("ok", t.fn())
        except BaseException as e: t.result=("err", type(e).__name__, str(e)[:200])
        t.state="done"; self.sem.release()
    def yield_point(self, info):
        t=self.me()
        if t is None: return
        t.pending=info; t.nops+=1
        self.sem.release(); t.sem.acquire()
    def block(self, t):
        t.state="blocked"; self.sem.release(); t.sem.acquire()
    def run(self, chooser):
        Sched.cur=self
        ths=[_real_Thread(target=self._body,args=(t,),daemon=True) for t in self.ts]
        for th in ths: th.start()
        step=0; last=None
        while True:
            runnable=[t for t in self.ts if t.state=="ready"]
            if not runnable:
                if all(t.state=="done" for t in self.ts): break
                raise Deadlock([ (t.idx,t.state,t.pending) for t in self.ts])
            t=chooser(step, runnable, last); last=t; step+=1
            self.trace.append((t.idx, t.pending))
            t.sem.release(); self.sem.acquire()
        Sched.cur=None
        return [t.result for t in self.ts]
class SLock:
    def __init__(self): self.owner=None; self.blocked=[]
    def acquire(self, blocking=True, timeout=-1):
        s=Sched.cur; t=s.me() if s else None
        if t is None: self.owner="main"; return True
        s.yield_point(("lock.acquire", id(self)))
        while self.owner is not None:
            self.blocked.append(t); s.block(t)
        self.owner=t; return True
    def _acquire_noyield(self, s, t):
        while self.owner is not None:
            self.blocked.append(t); s.block(t)
        self.owner=t
    def release(self):
        self.owner=None
        for t in self.blocked: t.state="ready"
        self.blocked=[]
    __enter__=acquire
    def __exit__(self,*a): self.release()
class SCondition:
    def __init__(self, lock=None): self.lock=lock or SLock(); self.waiters=[]
    def acquire(self,*a): return self.lock.acquire()
    def release(self): self.lock.release()
    def __enter__(self): return self.lock.acquire()
    def __exit__(self,*a): self.lock.release()
    def wait(self, timeout=None):
        s=Sched.cur; t=s.me()
        assert self.lock.owner is t
        self.lock.release(); self.waiters.append(t); t.pending=("cond.wait",id(self)); s.block(t)
        self.lock._acquire_noyield(s,t); return True
    def notify(self,n=1):
        for _ in range(n):
            if self.waiters: self.waiters.pop(0).state="ready"
    def notify_all(self): self.notify(len(self.waiters))
