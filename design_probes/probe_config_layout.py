import os, sys, tempfile, hashlib, shutil, logging, itertools, collections, yaml
logging.disable(logging.CRITICAL)
from hashstore.filehashstore import FileHashStore
base=tempfile.mkdtemp(dir="/dev/shm")
f=base+"/X"; open(f,"wb").write(b"content-x")
def snap(root):
    out={}
    for dp,dn,fn in os.walk(root):
        out[os.path.relpath(dp,root)+"/"]="d"
        for x in fn: p=os.path.join(dp,x); out[os.path.relpath(p,root)]=hashlib.md5(open(p,"rb").read()).hexdigest()
    return out
ALG=["MD5","SHA-1","SHA-256","SHA-384","SHA-512"]; BAD=["sha256","SHA256","sha-256","SHA-224","blake2b",""]
HL={"MD5":"md5","SHA-1":"sha1","SHA-256":"sha256","SHA-384":"sha384","SHA-512":"sha512"}
res=collections.Counter(); odd=[]
import random; rnd=random.Random(1)
def cfg(d,w,a,ns,enc): return dict(store_depth=str(d) if enc else d, store_width=str(w) if enc else w, store_algorithm=a, store_metadata_namespace=ns)
n=0
for trial in range(600):
    d1,w1=rnd.randint(1,5),rnd.randint(1,4); a1=rnd.choice(ALG+BAD[:2]) if rnd.random()<0.9 else rnd.choice(BAD); ns1=rnd.choice(["ns:a","ns:b"]); e1=rnd.random()<0.5
    # reopen: mostly mutate one field
    d2,w2,a2,ns2=d1,w1,a1,ns1; e2=rnd.random()<0.5
    m=rnd.choice(["same","d","w","a","ns","two"])
    if m in("d","two"): d2=rnd.choice([x for x in range(1,6) if x!=d1])
    if m in("w","two"): w2=rnd.choice([x for x in range(1,5) if x!=w1])
    if m=="a": a2=rnd.choice([x for x in ALG+BAD if x!=a1])
    if m=="ns": ns2="ns:b" if ns1=="ns:a" else "ns:a"
    parent=tempfile.mkdtemp(dir=base); root=parent+"/store"
    populated=rnd.random()<0.7
    before0=snap(parent)
    try:
        s=FileHashStore(dict(store_path=root, **cfg(d1,w1,a1,ns1,e1))); created=True
    except Exception as e:
        created=False
        if a1 in ALG: odd.append(("create-refused-valid",d1,w1,a1,type(e).__name__))
        if snap(parent)!=before0: odd.append(("create-refused-but-changed",d1,w1,a1,e1, [k for k in snap(parent) if k not in before0][:3]))
    if created:
        if a1 not in ALG: odd.append(("create-accepted-bad-algo",a1))
        if populated: s.store_object("p", f); s.store_metadata("p", f)
        b=snap(parent)
        same=(d1,w1,a1,ns1)==(d2,w2,a2,ns2)
        try:
            s2=FileHashStore(dict(store_path=root, **cfg(d2,w2,a2,ns2,e2))); ok=True
        except Exception as e: ok=False; et=type(e).__name__
        res[(m,ok)]+=1
        if ok!=same: odd.append(("accept-mismatch" if ok else "refuse-same",(d1,w1,a1,ns1,e1),(d2,w2,a2,ns2,e2)))
        if not ok and snap(parent)!=b: odd.append(("refused-but-changed",(d1,w1,a1,ns1),(d2,w2,a2,ns2)))
        if ok:
            if snap(parent)!=b: odd.append(("accepted-reopen-changed-files",(d1,w1,a1,ns1,e1),(e2,), [k for k in set(snap(parent))^set(b)][:3]))
            if populated:
                try:
                    assert s2.retrieve_object("p").read()==b"content-x" and s2.retrieve_metadata("p").read()==b"content-x"
                except Exception as e: odd.append(("data-invisible",type(e).__name__))
        # no yaml but dirs
        if populated and rnd.random()<0.3:
            os.remove(root+"/hashstore.yaml"); b=snap(parent)
            try: FileHashStore(dict(store_path=root, **cfg(d1,w1,a1,ns1,e1))); odd.append(("opened-without-yaml",))
            except RuntimeError: pass
            except Exception as e: odd.append(("noyaml-other-error",type(e).__name__))
            if snap(parent)!=b: odd.append(("noyaml-changed",))
    shutil.rmtree(parent)
print(sorted(res.items())); print("odd:",len(odd))
for o in odd[:15]: print(o)

# C15: independent layout across configs
def shard(h,d,w): return [h[i*w:(i+1)*w] for i in range(d)]+[h[d*w:]]
bad=0; n=0
for a in ALG:
  for d in range(1,7):
    for w in range(1,5):
      if d*w>24: continue
      parent=tempfile.mkdtemp(dir=base); root=parent+"/s"; n+=1
      s=FileHashStore(dict(store_path=root, store_depth=d, store_width=w, store_algorithm=a, store_metadata_namespace="ns:x"))
      Hh=lambda b: hashlib.new(HL[a], b if isinstance(b,bytes) else b.encode()).hexdigest()
      pids=["doi:10/ä","../x","p"]; 
      s.store_object(pids[0], f); s.store_object(pids[1], f); s.store_metadata(pids[0], f); s.store_metadata(pids[0], f, "fmt/2")
      cid=Hh(b"content-x")
      exp={"hashstore.yaml":None,
           "objects/"+"/".join(shard(cid,d,w)): b"content-x",
           "refs/cids/"+"/".join(shard(cid,d,w)): (pids[0]+"\n"+pids[1]+"\n").encode(),
           "refs/pids/"+"/".join(shard(Hh(pids[0]),d,w)): cid.encode(), "refs/pids/"+"/".join(shard(Hh(pids[1]),d,w)): cid.encode(),
           "metadata/"+"/".join(shard(Hh(pids[0]),d,w))+"/"+Hh(pids[0]+"ns:x"): b"content-x",
           "metadata/"+"/".join(shard(Hh(pids[0]),d,w))+"/"+Hh(pids[0]+"fmt/2"): b"content-x"}
      got={}
      for dp,dn,fn in os.walk(root):
          for x in fn: p=os.path.join(dp,x); got[os.path.relpath(p,root)]=open(p,"rb").read()
      y=yaml.safe_load(got.pop("hashstore.yaml")); exp.pop("hashstore.yaml")
      if got!=exp or (y["store_depth"],y["store_width"],y["store_algorithm"],y["store_metadata_namespace"])!=(d,w,a,"ns:x"):
          bad+=1; print("LAYOUT MISMATCH",a,d,w,set(got)^set(exp))
      shutil.rmtree(parent)
print("layout configs",n,"bad",bad)
shutil.rmtree(base)
