import io, os, tempfile, hashlib, shutil, logging, itertools
logging.disable(logging.CRITICAL)
from hashstore.filehashstore import FileHashStore, ObjectMetadata
base=tempfile.mkdtemp(dir=os.environ.get("PROBE_TMP", "/dev/shm"))
def snap(root):
    out={}
    for dp,dn,fn in os.walk(root):
        out[os.path.relpath(dp,root)+"/"]="dir"
        for f in fn:
            p=os.path.join(dp,f); out[os.path.relpath(p,root)]=hashlib.sha256(open(p,'rb').read()).hexdigest()[:10]
    return out
def mk(populated):
    root=tempfile.mkdtemp(dir=base)+"/s"
    s=FileHashStore(dict(store_path=root, store_depth=3, store_width=2, store_algorithm="SHA-256", store_metadata_namespace="ns:default"))
    if populated:
        f=base+"/X"; open(f,"wb").write(b"xx")
        s.store_object("p", f); s.store_object("q", f); s.store_metadata("p", f); s.store_metadata("p", f, "fmt2")
    return s, root
f=base+"/X"; open(f,"wb").write(b"xx")
meta=ObjectMetadata("HashStoreNoPid", hashlib.sha256(b"xx").hexdigest(), 2, {a:hashlib.new(a,b"xx").hexdigest() for a in ["md5","sha1","sha256","sha384","sha512"]})
BADID=[None,""," ","a b","a\tb","a\nb"," x","x "]
BADALG=["sm3","sha","md4","","  ","sha 256","SHA-257"]
BADSIZE=[0,-1,"12",1.5,"x"]
BADDATA=[None,5,b"bytes",["l"],io.StringIO("t"),"", "  ", "/nonexistent/file", base]
calls=[]
for b in BADID:
    calls+= [("store_object pid", lambda s,b=b: s.store_object(b, f) if b is not None else (_ for _ in ()).throw(StopIteration)),
             ("tag pid", lambda s,b=b: s.tag_object(b, "ab"*32)), ("tag cid", lambda s,b=b: s.tag_object("zz", b)),
             ("retrieve_object", lambda s,b=b: s.retrieve_object(b)), ("delete_object", lambda s,b=b: s.delete_object(b)),
             ("get_hex_digest pid", lambda s,b=b: s.get_hex_digest(b,"sha256")), ("get_hex_digest alg", lambda s,b=b: s.get_hex_digest("p",b)),
             ("store_metadata pid", lambda s,b=b: s.store_metadata(b, f)), ("retrieve_metadata pid", lambda s,b=b: s.retrieve_metadata(b)),
             ("delete_metadata pid", lambda s,b=b: s.delete_metadata(b)),
             ("store_metadata fmt", lambda s,b=b: s.store_metadata("p", f, b) if b is not None else (_ for _ in ()).throw(StopIteration)),
             ("retrieve_metadata fmt", lambda s,b=b: s.retrieve_metadata("p", b) if b is not None else (_ for _ in ()).throw(StopIteration)),
             ("delete_metadata fmt", lambda s,b=b: s.delete_metadata("p", b) if b is not None else (_ for _ in ()).throw(StopIteration)),
             ("dii checksum", lambda s,b=b: s.delete_if_invalid_object(meta, b, "sha256", 2)), ("dii algo", lambda s,b=b: s.delete_if_invalid_object(meta, "00", b, 2)),
             ("store checksum w/o algo", lambda s,b=b: s.store_object("n", f, checksum="00", checksum_algorithm=b)),
             ("store algo w/o checksum", lambda s,b=b: s.store_object("n", f, checksum=b, checksum_algorithm="sha256")),
            ]
for b in BADALG:
    calls+=[("store add_algo", lambda s,b=b: s.store_object("n", f, additional_algorithm=b)), ("store cks_algo", lambda s,b=b: s.store_object("n", f, checksum="00", checksum_algorithm=b)),
            ("get_hex_digest algo", lambda s,b=b: s.get_hex_digest("p", b)), ("dii algo", lambda s,b=b: s.delete_if_invalid_object(meta,"00",b,2))]
for b in BADSIZE:
    calls+=[("store size", lambda s,b=b: s.store_object("n", f, expected_object_size=b)), ("dii size", lambda s,b=b: s.delete_if_invalid_object(meta, meta.hex_digests["sha256"], "sha256", b))]
for b in BADDATA:
    calls+=[("store data", lambda s,b=b: s.store_object("n", b)), ("store data nopid", lambda s,b=b: s.store_object(None, b)), ("store_metadata data", lambda s,b=b: s.store_metadata("n", b))]
calls+=[("dii meta None", lambda s: s.delete_if_invalid_object(None,"00","sha256",2)), ("dii meta dict", lambda s: s.delete_if_invalid_object({}, "00","sha256",2)),
        ("retrieve unknown", lambda s: s.retrieve_object("unk")), ("delete unknown", lambda s: s.delete_object("unk")), ("hex unknown", lambda s: s.get_hex_digest("unk","md5")),
        ("retrieve_metadata unknown", lambda s: s.retrieve_metadata("unk")), ("retrieve_metadata unknown fmt", lambda s: s.retrieve_metadata("p","nofmt")),
        ("delete_metadata unknown", lambda s: s.delete_metadata("unk")),("delete_metadata unknown fmt", lambda s: s.delete_metadata("p","nofmt")),
        ("retrieve ok", lambda s: s.retrieve_object("p").read()), ("retrieve_metadata ok", lambda s: s.retrieve_metadata("p").read()), ("hex ok", lambda s: s.get_hex_digest("p","sha3_256")),
       ]
import collections
summary=collections.Counter(); changed=[]
for populated in (False, True):
    for label, c in calls:
        s,root=mk(populated); before=snap(root)
        try: r=c(s); out="OK"
        except StopIteration: continue
        except BaseException as e: out=type(e).__name__
        after=snap(root)
        summary[(label,out)]+=1
        if before!=after: changed.append((populated,label,out,[k for k in set(before)|set(after) if before.get(k)!=after.get(k)]))
        locks=[s.object_locked_pids_th,s.object_locked_cids_th,s.metadata_locked_docs_th,s.reference_locked_pids_th]
        if any(locks): changed.append(("LOCKS",label,out,locks))
for k,v in sorted(summary.items()): print(k,v)
print("CHANGED:")
for c in changed: print(c)
