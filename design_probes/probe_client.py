import io, os, sys, tempfile, hashlib, shutil, logging, contextlib
from hashstore import hashstoreclient
from hashstore.filehashstore import FileHashStore
base=tempfile.mkdtemp(dir=os.environ.get("PROBE_TMP", "/dev/shm"))
f=base+"/X"; open(f,"wb").write(b"hello world")
def client(*args):
    sys.argv=["client.py"]+list(args)
    buf=io.StringIO()
    try:
        with contextlib.redirect_stdout(buf): hashstoreclient.main()
        return ("ok", buf.getvalue()[:300])
    except SystemExit as e: return ("exit", e.code)
    except BaseException as e: return ("ERR", type(e).__name__, str(e)[:150])
    finally:
        # logging.basicConfig leaves a FileHandler open on root logger
        for h in list(logging.root.handlers): logging.root.removeHandler(h); h.close()
st=base+"/st"
print(client(st,"-chs","-dp=3","-wp=2","-ap=SHA-256","-nsp=ns:d"))
print(client(st,"-storeobject","-pid=p1","-path="+f))
print(client(st,"-storeobject","-pid=p2","-path="+f,"-algo=sha224"))
print(client(st,"-storeobject","-pid=p3","-path="+f,"-checksum="+hashlib.md5(b"hello world").hexdigest(),"-checksum_algo=MD5"))
print(client(st,"-storeobject","-pid=p4","-path="+f,"-obj_size=11"))
print(client(st,"-storeobject","-pid=p5","-path="+f,"-checksum=00","-checksum_algo=md5"))
print(client(st,"-getchecksum","-pid=p1","-algo=SHA-256"))
print(client(st,"-storemetadata","-pid=p1","-path="+f))
print(client(st,"-storemetadata","-pid=p1","-path="+f,"-formatid=fmt2"))
print(client(st,"-retrievemetadata","-pid=p1"))
print(client(st,"-retrievemetadata","-pid=p1","-formatid=fmt2"))
print(client(st,"-retrieveobject","-pid=p1"))
print(client(st,"-deletemetadata","-pid=p1"))
print(sorted(os.listdir(st)))
print(client(st,"-deleteobject","-pid=p1"))
print(client(st,"-deleteobject","-pid=nope"))
# store created by string depth
print(client(base+"/st2","-chs","-dp=2","-wp=3","-ap=MD5","-nsp=ns:d"))
s=FileHashStore(dict(store_path=base+"/st2", store_depth=2, store_width=3, store_algorithm="MD5", store_metadata_namespace="ns:d")); print("api opens client store ok")
print(open(base+"/st2/hashstore.yaml").read()[-200:])
