import sys, os, tempfile, logging, hashlib, threading, time, shutil, itertools
logging.disable(logging.CRITICAL)
import interp, sched; interp.install()
import hashstore.filehashstore as F
from hashstore.filehashstore import FileHashStore
base=tempfile.mkdtemp(dir=os.environ.get("PROBE_TMP", "/dev/shm"))
f=base+"/data"; open(f,"wb").write(b"abc")
def mkstore(root):
    rl, rc = threading.Lock, threading.Condition
    threading.Lock, threading.Condition = sched.SLock, sched.SCondition
    try: s=FileHashStore(dict(store_path=root, store_depth=2, store_width=2, store_algorithm="SHA-256", store_metadata_namespace="ns"))
    finally: threading.Lock, threading.Condition = rl, rc
    return s
def run_once(preempt_at, first):
    root=tempfile.mkdtemp(dir=base)+"/s"
    s=mkstore(root)
    s.store_object("p1", f)
    sc=sched.Sched()
    def wrap(fn):
        def g():
            interp.activate(root, lambda n,a: sc.yield_point((n,str(a[0])[-30:])))
            try: return fn()
            finally: interp.deactivate()
        return g
    sc.add(wrap(lambda: s.store_object("p2", f).cid))
    sc.add(wrap(lambda: s.delete_object("p1")))
    # chooser: run `first` non-preemptively, preempt it at op index preempt_at, then run other to completion, then back
    def chooser(step, runnable, last):
        pri=[first, 1-first]
        t0=sc.ts[pri[0]]; t1=sc.ts[pri[1]]
        if t0 in runnable and t0.nops<preempt_at: return t0
        if t1 in runnable: return t1
        return runnable[0]
    res=sc.run(chooser)
    # final check
    try: b=s.retrieve_object("p2").read(); r2=("ok",b)
    except Exception as e: r2=("ERR",type(e).__name__)
    shutil.rmtree(os.path.dirname(root))
    return res, r2, sc.ts[first].nops
t=time.time(); n=0; bad=[]
for first in (0,1):
    _,_,nops=run_once(10**9, first)
    for k in range(nops+1):
        res,r2,_=run_once(k, first); n+=1
        if res[0][0]=="ok" and r2[0]!="ok": bad.append((first,k,res,r2))
print("runs",n,"time",round(time.time()-t,2),"bad",len(bad))
for b in bad[:3]: print(b)
