#!/venv/bin/python
"""Behaviour-preserving refactorings (refactors/<name>/patch.diff) must NOT make any check alarm.
usage: tools/refactor_matrix.py [--jobs N] [name ...]   (runs all 20 quick checks per refactoring)"""
import concurrent.futures as cf
import json, os, subprocess, sys, tempfile, time
D = "/verif/refactors"
IDS = ["C%02d" % i for i in range(1, 21)]
def run_one(name):
    wt = tempfile.mkdtemp(prefix="hsv-rf-", dir="/tmp"); os.rmdir(wt)
    subprocess.check_call(["git", "-C", "/repo", "worktree", "add", "-q", "--detach", wt, "HEAD"])
    res = {}
    try:
        r = subprocess.run(["git", "-C", wt, "apply", os.path.join(D, name, "patch.diff")], capture_output=True, text=True)
        if r.returncode != 0:
            return name, {"_apply": "FAILED " + r.stderr[:200]}
        env = dict(os.environ, PYTHONPATH=os.path.join(wt, "src"))
        t = subprocess.run(["/venv/bin/python", "-m", "pytest", "-q", "-p", "no:cacheprovider", "--timeout=900"], env=env, cwd=wt,
                           capture_output=True, text=True)
        res["_suite"] = (t.stdout.strip().splitlines() or [""])[-1]
        env = dict(os.environ, HSVERIF_REPO_SRC=os.path.join(wt, "src"))
        for c in IDS:
            t0 = time.time()
            p = subprocess.run(["/venv/bin/python", "/verif/check.py", c], env=env, capture_output=True, text=True, cwd="/verif", timeout=2400)
            lines = [l for l in (p.stdout + p.stderr).splitlines() if not l.startswith("KNOWN-FINDING")]
            res[c] = {"rc": p.returncode, "wall_s": round(time.time() - t0, 1)}
            if p.returncode != 0:
                res[c]["output"] = " | ".join(lines[:4])[:900]
    finally:
        subprocess.call(["git", "-C", "/repo", "worktree", "remove", "--force", wt])
    return name, res
def main():
    jobs = 2
    names = [a for a in sys.argv[1:] if not a.startswith("--")] or sorted(os.listdir(D))
    for a in sys.argv[1:]:
        if a.startswith("--jobs="): jobs = int(a.split("=")[1])
    with cf.ThreadPoolExecutor(jobs) as ex:
        for name, res in ex.map(run_one, names):
            json.dump({"head": subprocess.check_output(["git", "-C", "/repo", "rev-parse", "--short", "HEAD"], text=True).strip(),
                       "results": res, "alarms": sorted(c for c, r in res.items() if isinstance(r, dict) and r.get("rc") not in (0, None))},
                      open(os.path.join(D, name, "meta.json"), "w"), indent=1)
            bad = {c: r for c, r in res.items() if isinstance(r, dict) and r.get("rc") != 0}
            print(name, res.get("_suite"), "ALARMS:" if bad else "all 20 checks quiet", json.dumps(bad)[:1500] if bad else "", flush=True)
if __name__ == "__main__":
    main()
