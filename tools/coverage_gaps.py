#!/venv/bin/python
"""Diagnosis: which lines / branches of the code under test does no check execute?
usage: tools/coverage_gaps.py [--tier quick] [--keep <dir>] [ID ...]   (default: all 20 quick checks)
Runs the checks with HSVERIF_COVERAGE set (hsverif/cov.py), merges what the workers and their forked children saw and prints,
per function of src/hashstore/*.py, the executable lines nobody reached.  Nothing here is a verdict."""
import dis, glob, json, os, subprocess, sys, tempfile, types
args = sys.argv[1:]
tier = "quick"
keep = None
if "--tier" in args:
    i = args.index("--tier"); tier = args[i + 1]; del args[i:i + 2]
if "--keep" in args:
    i = args.index("--keep"); keep = args[i + 1]; del args[i:i + 2]
ids = args or [f"C{i:02d}" for i in range(1, 21)]
d = keep or tempfile.mkdtemp(prefix="hsv-cov-", dir="/dev/shm")
src = os.environ.get("HSVERIF_REPO_SRC", "/repo/src")
if not (keep and glob.glob(os.path.join(d, "*.json"))):
    for pid in ids:
        env = dict(os.environ, HSVERIF_COVERAGE=d, HSVERIF_NO_EVIDENCE="1")
        r = subprocess.run(["/venv/bin/python", "/verif/check.py", pid, "--tier", tier], env=env, capture_output=True, text=True)
        print(pid, "rc", r.returncode, len(glob.glob(os.path.join(d, "*.json"))), "files", file=sys.stderr, flush=True)
lines, arcs = set(), set()
for f in glob.glob(os.path.join(d, "*.json")):
    try:
        j = json.load(open(f))
    except Exception:
        continue
    lines.update(map(tuple, j["lines"])); arcs.update(map(tuple, j["arcs"]))
def code_objects(co):
    yield co
    for c in co.co_consts:
        if isinstance(c, types.CodeType):
            yield from code_objects(c)
tot = miss = 0
for name in ("filehashstore.py", "hashstore.py", "hashstoreclient.py", "filehashstore_exceptions.py"):
    path = os.path.join(src, "hashstore", name)
    text = open(path, encoding="utf-8").read().splitlines()
    top = compile("\n".join(text) + "\n", path, "exec")
    for co in code_objects(top):
        exe = sorted({l for (_, _, l) in co.co_lines() if l is not None and l != co.co_firstlineno} -
                     {l for c in co.co_consts if isinstance(c, types.CodeType) for (_, _, l) in c.co_lines() if l})
        un = [l for l in exe if (name, l) not in lines]
        tot += len(exe); miss += len(un)
        if un and co.co_name != "<module>":
            print(f"\n== {name}:{co.co_firstlineno} {co.co_qualname}: {len(un)}/{len(exe)} lines never executed")
            for l in un:
                print(f"   {l:5d}  {text[l - 1].rstrip()[:150]}")
print(f"\nTOTAL executable lines {tot}, never executed {miss}  (data: {d})")
