#!/venv/bin/python
"""Run checks against a patched scratch copy of /repo: tools/try_patch.py <patch.diff> <ID> [<ID>...] [--tier T]
(the scratch worktree lives under /tmp and is removed afterwards; /repo itself is never touched)."""
import os, subprocess, sys, tempfile, time
args = [a for a in sys.argv[1:] if not a.startswith("--")]
tier = "quick"
for a in sys.argv[1:]:
    if a.startswith("--tier="):
        tier = a.split("=", 1)[1]
patch, ids = os.path.abspath(args[0]), args[1:]
wt = tempfile.mkdtemp(prefix="hsv-mut-", dir="/tmp")
os.rmdir(wt)
subprocess.check_call(["git", "-C", "/repo", "worktree", "add", "-q", "--detach", wt, "HEAD"])
rc_all = 0
try:
    subprocess.check_call(["git", "-C", wt, "apply", patch])
    env = dict(os.environ, HSVERIF_REPO_SRC=os.path.join(wt, "src"))
    for i in ids:
        t = time.time()
        p = subprocess.run(["/venv/bin/python", "/verif/check.py", i, "--tier", tier], env=env,
                           capture_output=True, text=True, cwd="/verif")
        lines = [l for l in (p.stdout + p.stderr).strip().splitlines() if not l.startswith("KNOWN-FINDING")]
        print(f"[{i}] rc={p.returncode} {time.time()-t:.1f}s :: " + " | ".join(lines[:3])[:700])
        rc_all |= p.returncode
finally:
    subprocess.call(["git", "-C", "/repo", "worktree", "remove", "--force", wt])
sys.exit(0)
