#!/venv/bin/python
"""Confirm a sub-agent's seeded change and import it: tools/confirm_seeded.py <ID> <N> [<srcdir>]
Checks: patch applies to /repo HEAD (in a scratch worktree), existing test suite passes with it,
demo FAILs with it and PASSes without it.  On success copies to /verif/seeded/<ID>-<N>/ and writes meta.json."""
import json, os, re, shutil, subprocess, sys, tempfile
pid, n = sys.argv[1], sys.argv[2]
src = sys.argv[3] if len(sys.argv) > 3 else f"/tmp/wt/{pid}/_seeded/{n}"
patch, demo = os.path.join(src, "patch.diff"), os.path.join(src, "demo.py")
def run(cmd, env=None, cwd=None, timeout=900):
    p = subprocess.run(cmd, env=env, cwd=cwd, capture_output=True, text=True, timeout=timeout)
    return p.returncode, (p.stdout + p.stderr)
def demo_on(srcdir):
    env = dict(os.environ, PYTHONPATH=srcdir)
    return run(["/venv/bin/python", demo], env=env, cwd=tempfile.gettempdir(), timeout=300)
wt = tempfile.mkdtemp(prefix="hsv-conf-", dir="/tmp"); os.rmdir(wt)
subprocess.check_call(["git", "-C", "/repo", "worktree", "add", "-q", "--detach", wt, "HEAD"])
res = {"property": pid, "n": n}
try:
    rc0, out0 = demo_on(os.path.join(wt, "src"))
    res["demo_on_head"] = {"rc": rc0, "tail": out0.strip().splitlines()[-1:] }
    rc, out = run(["git", "-C", wt, "apply", patch])
    res["applies"] = rc == 0
    if rc != 0:
        print("PATCH DOES NOT APPLY", out); sys.exit(1)
    env = dict(os.environ, PYTHONPATH=os.path.join(wt, "src"))
    rc, out = run(["/venv/bin/python", "-m", "pytest", "-q", "-p", "no:cacheprovider", "--timeout=900"], env=env, cwd=wt)
    tail = out.strip().splitlines()[-1] if out.strip() else ""
    res["suite_with_patch"] = {"rc": rc, "summary": tail}
    rc1, out1 = demo_on(os.path.join(wt, "src"))
    res["demo_with_patch"] = {"rc": rc1, "tail": out1.strip().splitlines()[:3]}
finally:
    subprocess.call(["git", "-C", "/repo", "worktree", "remove", "--force", wt])
ok = res["applies"] and res["suite_with_patch"]["rc"] == 0 and res["demo_on_head"]["rc"] == 0 and res["demo_with_patch"]["rc"] != 0
res["confirmed"] = ok
print(json.dumps(res, indent=1))
if ok:
    dst = f"/verif/seeded/{pid}-{n}"
    os.makedirs(dst, exist_ok=True)
    for f in ("patch.diff", "demo.py", "notes.md"):
        if os.path.isfile(os.path.join(src, f)) and os.path.abspath(src) != os.path.abspath(dst):
            shutil.copy(os.path.join(src, f), os.path.join(dst, f))
    meta_p = os.path.join(dst, "meta.json")
    meta = json.load(open(meta_p)) if os.path.isfile(meta_p) else {}
    meta.update({"breaks_property": pid, "source": "independent sub-agent given only the property text and a scratch worktree",
                 "repo_head_when_confirmed": subprocess.check_output(["git", "-C", "/repo", "rev-parse", "--short", "HEAD"], text=True).strip(),
                 "confirmation": res})
    json.dump(meta, open(meta_p, "w"), indent=1)
sys.exit(0 if ok else 1)
