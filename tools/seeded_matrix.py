#!/venv/bin/python
"""Run each seeded change against the check of the property it breaks (and optional extra checks) in a
scratch worktree; record the result in seeded/<id>/meta.json and print a table.
usage: tools/seeded_matrix.py [--jobs N] [--only C07-1,C08-b1] [--extra]"""
import concurrent.futures as cf
import json, os, subprocess, sys, tempfile, time
SEEDED = "/verif/seeded"
EXTRA = {"C01-2": ["C07"], "C04-1": ["C07"], "C06-2": ["C07"], "C03-b1": ["C07"], "C12-1": ["C13", "C12"], "C12-b2": ["C13"],
         "C01-1": ["C04", "C05", "C18"], "C04-2": ["C05"], "C15-1": ["C05"], "C18-2": ["C04"], "C11-2": ["C17"], "C17-1": ["C11"],
         "C02-1": [], "C19-1": ["C06"], "C19-2": ["C05"], "C10-1": ["C09"], "C13-2": ["C08"], "C07-2": ["C08", "C16"], "C09-1": ["C10", "C12"],
         "C09-2": ["C10"], "C08-b2": ["C12"], "C16-2": ["C07"],
         "C03-r2": ["C07"], "C04-r2": ["C07"], "C01-s1": ["C07"], "C03-s1": ["C07"], "C04-s1": ["C07"], "C04-s2": ["C13"],
         "C11-s1": ["C12", "C13"], "C02-s2": ["C01"], "C09-s1": ["C01"],
         "C01-t1": ["C18", "C15"], "C01-t2": ["C07", "C05", "C16"], "C02-t2": ["C01", "C09"], "C03-t2": ["C05"], "C04-t2": ["C07", "C16"],
         "C05-t1": ["C03", "C15"], "C05-t2": ["C17"], "C06-t1": ["C07"], "C19-t2": ["C07"], "C11-t1": ["C13"], "C09-t1": ["C01", "C02"],
         "C15-t1": ["C05", "C11"], "C18-t1": ["C01"], "C18-t2": ["C11"], "C11-t2": ["C18"], "C16-t2": ["C12"], "C12-t2": ["C16"],
         "C01-u1": ["C05", "C15"], "C01-u2": ["C02"], "C05-u1": ["C01", "C18"], "C05-u2": ["C16", "C07"], "C13-u1": ["C08"],
         "C13-u2": ["C07"], "C11-u1": ["C18"], "C11-u2": ["C12", "C13", "C09"], "C18-u1": ["C03"], "C18-u2": ["C11", "C12", "C09"],
         "C06-u1": ["C17", "C19"], "C06-u2": ["C01"], "C17-u2": ["C11"], "C12-u1": ["C09"], "C12-u2": ["C16", "C11"],
         "C16-u1": ["C07"], "C16-u2": ["C07"], "C19-u1": ["C06"], "C19-u2": ["C07"], "C09-u1": ["C12"], "C09-u2": ["C10", "C13"],
         "C03-u1": ["C18"], "C03-u2": ["C07", "C08"], "C08-u1": ["C12"], "C08-u2": ["C13"],
         "C02-u2": ["C01"], "C04-u1": ["C18", "C05"], "C04-u2": ["C07", "C16"], "C07-u1": ["C08", "C16"], "C07-u2": ["C08"],
         "C10-u1": ["C09", "C13"], "C10-u2": ["C05"], "C15-u1": ["C18", "C03"], "C15-u2": ["C05", "C18", "C04"],
         "C01-v1": ["C02", "C06"], "C01-v2": ["C13", "C07"], "C02-v1": ["C01", "C06", "C09"], "C02-v2": ["C01", "C09"], "C03-v1": ["C05"],
         "C03-v2": ["C05", "C19"], "C04-v1": ["C05"], "C04-v2": ["C13", "C07"], "C05-v1": ["C01", "C18"], "C05-v2": ["C13"],
         "C06-v1": ["C01"], "C06-v2": ["C07"], "C07-v1": ["C12"], "C07-v2": ["C16"], "C08-v1": ["C05"], "C08-v2": ["C12"],
         "C09-v1": ["C06", "C01"], "C09-v2": ["C12", "C10"], "C11-v1": ["C04"], "C11-v2": ["C13"], "C12-v1": ["C09"], "C12-v2": ["C09"],
         "C13-v1": ["C08"], "C13-v2": ["C07"], "C15-v1": ["C14"], "C15-v2": ["C07", "C16"], "C17-v2": ["C13"], "C18-v1": ["C03", "C15"],
         "C18-v2": ["C13"], "C19-v1": ["C06"], "C19-v2": ["C13"], "C20-v2": ["C12"], "C10-v1": ["C09", "C13"], "C10-v2": ["C09", "C13"],
         "C16-v1": ["C07"], "C16-v2": ["C07"],
         "C01-x1": ["C11", "C02"], "C01-x2": ["C05"], "C02-x1": ["C01", "C09"], "C02-x2": ["C06", "C19"], "C03-x1": ["C05"], "C04-x1": ["C05"],
         "C04-x2": ["C13", "C05"], "C05-x2": ["C13"], "C07-x1": ["C13"], "C07-x2": ["C16"], "C08-x2": ["C13"], "C09-x1": ["C01", "C02"],
         "C09-x2": ["C13"], "C10-x1": ["C09"], "C10-x2": ["C05"], "C11-x1": ["C01"], "C11-x2": ["C13"], "C12-x2": ["C07"], "C13-x1": ["C08"],
         "C13-x2": ["C08"], "C15-x1": ["C14"], "C15-x2": ["C14"], "C16-x2": ["C07"], "C17-x2": ["C13"], "C18-x2": ["C13"], "C19-x1": ["C06"],
         "C19-x2": ["C06", "C05"], "C06-x1": ["C18"], "C06-x2": ["C09"], "C14-x2": ["C13"],
         "C01-w2": ["C07", "C02"], "C02-w1": ["C01"], "C03-w1": ["C05"], "C03-w2": ["C07", "C12"], "C04-w1": ["C13"], "C04-w2": ["C07"],
         "C05-w1": ["C04"], "C05-w2": ["C13", "C01"], "C06-w2": ["C19"], "C07-w1": ["C02", "C09"], "C07-w2": ["C16"], "C08-w1": ["C17"],
         "C08-w2": ["C12"], "C09-w1": ["C07", "C02"], "C09-w2": ["C12", "C10"], "C10-w1": ["C13"], "C10-w2": ["C13"], "C11-w1": ["C04"],
         "C11-w2": ["C01"], "C12-w1": ["C08"], "C13-w2": ["C04"], "C15-w1": ["C10", "C05"], "C15-w2": ["C14", "C11"], "C16-w1": ["C08"],
         "C16-w2": ["C08", "C13"], "C17-w1": ["C11"], "C17-w2": ["C05"], "C18-w2": ["C13"], "C19-w1": ["C06"], "C20-w2": ["C14"],
         "C01-y1": ["C15"], "C01-y2": ["C10", "C04", "C05"], "C02-y2": ["C08", "C13"], "C04-y2": ["C13", "C05"], "C08-y1": ["C05", "C03", "C17"],
         "C10-y1": ["C05", "C13"], "C10-y2": ["C04"], "C11-y2": ["C13", "C08"], "C12-y1": ["C08", "C16"], "C13-y1": ["C05", "C08"],
         "C13-y2": ["C03"], "C14-y1": ["C15", "C20"], "C14-y2": ["C15"], "C17-y1": ["C06", "C19"], "C17-y2": ["C10", "C05"],
         "C18-y2": ["C04", "C05"], "C03-y1": ["C05", "C13"], "C03-y2": ["C13"], "C06-y1": ["C19", "C17"], "C06-y2": ["C19", "C05", "C15"],
         "C09-y1": ["C10"], "C09-y2": ["C13", "C12"], "C05-y1": ["C03", "C04"], "C05-y2": ["C10"], "C07-y1": ["C16", "C08"],
         "C07-y2": ["C16", "C03"], "C15-y1": ["C05"], "C15-y2": ["C11", "C18"], "C19-y1": ["C06", "C02"], "C19-y2": ["C06"],
         "C20-y1": ["C17"], "C20-y2": [],
         "C01-z1": ["C02"], "C01-z2": ["C06"], "C02-z1": ["C01", "C09"], "C02-z2": ["C13"], "C03-z1": ["C05"], "C03-z2": ["C05"],
         "C04-z1": ["C01", "C05"], "C04-z2": ["C07"], "C05-z1": ["C03"], "C05-z2": ["C07", "C16"], "C06-z1": ["C19"], "C06-z2": ["C01"],
         "C07-z1": ["C08"], "C08-z2": ["C13"], "C09-z2": ["C16"], "C10-z2": ["C13"], "C11-z2": ["C13", "C12"], "C12-z1": ["C16"],
         "C13-z1": ["C08"], "C13-z2": ["C08"], "C15-z1": ["C20"], "C15-z2": ["C14"], "C16-z2": ["C12"], "C17-z2": ["C13"],
         "C18-z2": ["C13"], "C19-z1": ["C06"], "C19-z2": ["C06"],
         "C01-q1": ["C03", "C05"], "C01-q2": ["C13"], "C03-q1": ["C05"], "C03-q2": ["C13"], "C04-q1": ["C06"], "C04-q2": ["C10"],
         "C05-q1": ["C03"], "C05-q2": ["C10"], "C06-q1": ["C19"], "C06-q2": ["C10"], "C11-q1": ["C15"], "C11-q2": ["C10"],
         "C17-q2": ["C08"], "C18-q1": ["C11"], "C18-q2": ["C12"], "C19-q1": ["C17"], "C19-q2": ["C07", "C13"]}
def run_one(name, checks):
    d = os.path.join(SEEDED, name)
    wt = tempfile.mkdtemp(prefix="hsv-mx-", dir="/tmp"); os.rmdir(wt)
    subprocess.check_call(["git", "-C", "/repo", "worktree", "add", "-q", "--detach", wt, "HEAD"])
    res = {}
    try:
        r = subprocess.run(["git", "-C", wt, "apply", os.path.join(d, "patch.diff")], capture_output=True, text=True)
        if r.returncode != 0:
            return name, {"_apply": "FAILED " + r.stderr[:200]}
        env = dict(os.environ, HSVERIF_REPO_SRC=os.path.join(wt, "src"))
        for c in checks:
            t = time.time()
            p = subprocess.run(["/venv/bin/python", "/verif/check.py", c, "--tier", "quick"], env=env, capture_output=True, text=True,
                               cwd="/verif", timeout=1500)
            lines = [l for l in p.stdout.splitlines() if l.startswith("VIOLATION") or l.startswith("  ")]
            res[c] = {"rc": p.returncode, "wall_s": round(time.time() - t, 1),
                      "first": (lines[1].strip()[:260] if len(lines) > 1 else lines[0][:200] if lines else "")}
            if p.returncode not in (0, 1):
                res[c]["stderr_tail"] = p.stderr[-1500:]
    finally:
        subprocess.call(["git", "-C", "/repo", "worktree", "remove", "--force", wt])
    return name, res
def main():
    jobs, only, extra = 4, None, "--extra" in sys.argv
    for a in sys.argv[1:]:
        if a.startswith("--jobs="): jobs = int(a.split("=")[1])
        if a.startswith("--only="): only = a.split("=")[1].split(",")
    names = sorted(n for n in os.listdir(SEEDED) if os.path.isfile(os.path.join(SEEDED, n, "patch.diff")))
    work = []
    for n in names:
        meta = json.load(open(os.path.join(SEEDED, n, "meta.json")))
        if meta.get("status") == "obsolete" or (only and n not in only):
            continue
        checks = [n.split("-")[0]] + (EXTRA.get(n, []) if extra else [])
        work.append((n, checks))
    with cf.ThreadPoolExecutor(jobs) as ex:
        for name, res in ex.map(lambda w: run_one(*w), work):
            mp = os.path.join(SEEDED, name, "meta.json")
            meta = json.load(open(mp))
            meta.setdefault("checks_run", {}).update(res)
            own = name.split("-")[0]
            meta["detected_by"] = sorted(c for c, r in meta["checks_run"].items() if isinstance(r, dict) and r.get("rc") == 1)
            meta["detected_by_own_check"] = own in meta["detected_by"]
            json.dump(meta, open(mp, "w"), indent=1)
            print(name, {c: (r.get("rc"), r.get("wall_s")) if isinstance(r, dict) else r for c, r in res.items()}, flush=True)
if __name__ == "__main__":
    main()
