#!/bin/bash
# tools/run_all.sh <tier> <seed...> : run every registered check at the given seeds, print one line each
tier=${1:-quick}; shift
for seed in "${@:-1}"; do
  for i in $(seq -w 1 20); do
    id=C$i
    out=$(VERIF_SEED=$seed /venv/bin/python check.py $id --tier $tier 2>&1); rc=$?
    echo "seed=$seed $id rc=$rc $(echo "$out" | grep -E '^(OK|VIOLATION)' | head -1 | cut -c1-220)"
    [ $rc -ne 0 ] && echo "$out" | grep -v KNOWN-FINDING | head -5 | cut -c1-600
  done
done
