#!/venv/bin/python
"""Sensitivity smoke test: small hand-made textual mutations of /repo (applied to a scratch worktree),
each run against the check(s) that must report it.  usage: tools/hand_mutants.py [name ...]"""
import os, subprocess, sys, tempfile, time
F = "src/hashstore/filehashstore.py"
C = "src/hashstore/hashstoreclient.py"
M = [
 ("M01-no-seek0", F, "        self._obj.seek(0)\n\n        while True:", "        while True:", ["C01"]),
 ("M02-no-restore-pos", F, "        else:\n            self._obj.seek(self._pos)\n\n\n@dataclass", "        else:\n            pass\n\n\n@dataclass", ["C01"]),
 ("M03-cid-always-sha256", F, "        object_cid = hex_digests.get(self.algorithm)\n        abs_file_path", "        object_cid = hex_digests.get(\"sha256\")\n        abs_file_path", ["C01", "C15"]),
 ("M04-clean-algo-no-lower", F, "            cleaned_string = algorithm_string.lower().replace(\"-\", \"\").replace(\"_\", \"\")", "            cleaned_string = algorithm_string.replace(\"-\", \"\").replace(\"_\", \"\")", ["C02", "C06"]),
 ("M05-retag-silently-ok", F, "                        self.fhs_logger.error(err_msg)\n                        raise HashStoreRefsAlreadyExists(err_msg)\n                    except Exception as e:", "                        self.fhs_logger.error(err_msg)\n                        return\n                    except Exception as e:", ["C03", "C05"]),
 ("M06-delete-object-always", F, "                    if os.path.getsize(cid_ref_abs_path) == 0:\n                        debug_msg = (", "                    if True:\n                        debug_msg = (", ["C04", "C05"]),
 ("M07-empty-list-kept", F, "                        objects_to_delete.append(\n                            self._rename_path_for_deletion(cid_ref_abs_path)\n                        )\n                        obj_real_path", "                        obj_real_path", ["C05"]),
 ("M08-no-verify-on-duplicate", F, "            try:\n                self._verify_object_information(\n                    pid,\n                    checksum,\n                    checksum_algorithm,\n                    \"objects\",\n                    hex_digests,\n                    tmp_file_name,\n                    tmp_file_size,\n                    file_size_to_validate,\n                )\n            except NonMatchingObjSize as nmose:", "            try:\n                pass\n            except NonMatchingObjSize as nmose:", ["C06", "C19"]),
 ("M10-docname-from-format-only", F, "        pid_doc = self._computehash(pid + checked_format_id)\n\n        sync_begin_debug_msg = (\n            f\" Adding pid", "        pid_doc = self._computehash(checked_format_id)\n\n        sync_begin_debug_msg = (\n            f\" Adding pid", ["C11", "C15"]),
 ("M11-retrieve-default-ns-not-substituted", F, "        if format_id is None:\n            metadata_document_name = self._computehash(pid + self.sysmeta_ns)", "        if format_id is None:\n            metadata_document_name = self._computehash(pid)", ["C11"]),
 ("M12-no-rollback", F, "                if tagging_started:\n                    self._untag_object(pid, cid)\n                raise ue", "                raise ue", ["C13"]),
 ("M13-width-not-compared", F, "                    if hashstore_yaml_dict[key] != supplied_key:", "                    if key != \"store_width\" and hashstore_yaml_dict[key] != supplied_key:", ["C14"]),
 ("M14-pidref-hash-fixed-sha256", F, "        hash_id = self._computehash(pid, self.algorithm)\n        root_dir = self._get_store_path(\"pid\")", "        hash_id = self._computehash(pid, \"sha256\")\n        root_dir = self._get_store_path(\"pid\")", ["C15"]),
 ("M15-late-size-check", F, "            self._check_arg_data(data)\n            self._check_integer(expected_object_size)\n", "            self._check_arg_data(data)\n", ["C17"]),
 ("M16-no-cid-lock-when-tagging", F, "            self._synchronize_referenced_locked_pids(pid)\n            self._synchronize_object_locked_cids(cid)\n\n            # Only revert", "            self._synchronize_referenced_locked_pids(pid)\n            self.object_locked_cids_th.append(cid) if not self.use_multiprocessing else self.object_locked_cids_mp.append(cid)\n\n            # Only revert", ["C07"]),
 ("M17-release-cid-no-notify", F, "                self.object_locked_cids_th.remove(cid)\n                self.object_cid_condition_th.notify()", "                self.object_locked_cids_th.remove(cid)", ["C08", "C07"]),
 ("M18-store-metadata-no-wait", F, "                while pid_doc in self.metadata_locked_docs_th:\n                    self.fhs_logger.debug(sync_wait_msg)\n                    self.metadata_condition_th.wait()\n                self.fhs_logger.debug(sync_begin_debug_msg)\n                self.metadata_locked_docs_th.append(pid_doc)\n\n        try:\n            metadata_cid", "                self.fhs_logger.debug(sync_begin_debug_msg)\n                self.metadata_locked_docs_th.append(pid_doc)\n\n        try:\n            metadata_cid", ["C12"]),
 ("M19-mp-release-uses-th-list", F, "            with self.object_pid_condition_mp:\n                self.object_locked_pids_mp.remove(pid)\n                self.object_pid_condition_mp.notify()", "            with self.object_pid_condition_mp:\n                self.object_locked_pids_th.remove(pid)\n                self.object_pid_condition_mp.notify()", ["C16"]),
 ("M20-client-swaps-checksum-args", C, "            pid, path, algorithm, checksum, checksum_algorithm, size\n", "            pid, path, algorithm, checksum_algorithm, checksum, size\n", ["C20"]),
 ("M22-pid-normalised-casefold", F, "        hash_id = self._computehash(pid, self.algorithm)\n        root_dir = self._get_store_path(\"pid\")", "        hash_id = self._computehash(pid.lower(), self.algorithm)\n        root_dir = self._get_store_path(\"pid\")", ["C18", "C15"]),
 ("M23-metadata-in-place-append", F, "                shutil.move(metadata_tmp, full_path)\n                self.fhs_logger.debug(\"Successfully put metadata", "                open(full_path, \"ab\").write(open(metadata_tmp, \"rb\").read()); os.remove(metadata_tmp)\n                self.fhs_logger.debug(\"Successfully put metadata", ["C11", "C09"]),
 ("M24-shard-off-by-one", F, "            + [checksum[self.depth * self.width :]]", "            + [checksum[self.depth * self.width + 1 :]]", ["C15"]),
 ("M25-yaml-rewritten-on-open", F, "            if not os.path.isfile(self.hashstore_configuration_yaml):\n                # pylint: disable=W1201", "            if True:\n                if os.path.isfile(self.hashstore_configuration_yaml):\n                    os.remove(self.hashstore_configuration_yaml)\n                # pylint: disable=W1201", ["C14"]),
 ("M26-dii-ignores-cid-refs", F, "            if os.path.isfile(cid_refs_abs_path):\n                debug_msg = (\n                    f\"Cid reference file exists for: {cid}, skipping delete request.\"", "            if False:\n                debug_msg = (\n                    f\"Cid reference file exists for: {cid}, skipping delete request.\"", ["C04", "C06"]),
 ("M27-pid-lock-released-early", F, "                    cid = object_metadata.cid\n                    self.tag_object(pid, cid)", "                    cid = object_metadata.cid\n                    self._release_object_locked_pids(pid); self._synchronize_object_locked_pids(pid)\n                    self.tag_object(pid, cid)", ["C07"]),
]
def main():
    want = sys.argv[1:]
    for name, f, old, new, checks in M:
        if want and not any(w in name for w in want):
            continue
        wt = tempfile.mkdtemp(prefix="hsv-hm-", dir="/tmp"); os.rmdir(wt)
        subprocess.check_call(["git", "-C", "/repo", "worktree", "add", "-q", "--detach", wt, "HEAD"])
        try:
            p = os.path.join(wt, f); s = open(p).read()
            if s.count(old) != 1:
                print(f"{name}: PATTERN MATCHES {s.count(old)}x - skipped"); continue
            open(p, "w").write(s.replace(old, new))
            env = dict(os.environ, HSVERIF_REPO_SRC=os.path.join(wt, "src"))
            res = []
            for c in checks:
                t = time.time()
                r = subprocess.run(["/venv/bin/python", "/verif/check.py", c], env=env, capture_output=True, text=True, cwd="/verif", timeout=1500)
                first = [l for l in r.stdout.splitlines() if l.startswith("  ")][:1]
                res.append(f"{c}:rc={r.returncode}/{time.time()-t:.0f}s" + (" " + first[0].strip()[:110] if first and r.returncode == 1 else ""))
            print(f"{name}: " + " | ".join(res), flush=True)
        finally:
            subprocess.call(["git", "-C", "/repo", "worktree", "remove", "--force", wt])
if __name__ == "__main__":
    main()
