#!/venv/bin/python
"""setup_cmd self-test: the tools the checks need import, and the code under test is the working tree."""
import os, sys
sys.path.insert(0, os.path.dirname(os.path.dirname(os.path.abspath(__file__))))
import hypothesis  # noqa
from hsverif import common
m = common.hs()
assert os.path.realpath(m.__file__).startswith(os.path.realpath(common.REPO_SRC)), m.__file__
d = common.fresh_dir("selftest")
s = common.make_store(os.path.join(d, "s"))
p = common.write_file(os.path.join(d, "f"), b"abc")
om = s.store_object("p", p)
assert common.retrieve_bytes(s, "p")[1] == b"abc"
common.cleanup_scratch()
print("hsverif selftest ok: hypothesis", hypothesis.__version__, "hashstore from", m.__file__)
