#!/venv/bin/python
"""Regenerates /verif/MANIFEST.json from the table below (kept valid at all times)."""
import json, os, sys
HERE = os.path.dirname(os.path.dirname(os.path.abspath(__file__)))
PY = "/venv/bin/python"
CHECKS = {
 # id: (level, technique, level text, level note, design ref)
 "C01": ("exploration", "property-based testing (Hypothesis): generated contents x input kinds x offsets x store algorithms x interposed histories; round-trip + independent hashlib oracle",
         "Generated-input search with a round-trip / independent-digest oracle over the product the property quantifies over; finds counterexamples, does not prove absence.",
         "Trusts hashlib and the local file system; contents bounded at 5 read buffers + 1 byte; histories of <= 10 interposed calls.", "4 C01"),
}
NOT_YET = "check not built yet in this session (see DESIGN.md section 4 for the planned check)"
def main():
    props = [json.loads(l) for l in open(os.path.join(HERE, "properties.jsonl"))]
    checks, na = [], []
    for p in props:
        i = p["id"]
        if i in CHECKS and os.path.isfile(os.path.join(HERE, "hsverif", "props", i.lower() + ".py")):
            lvl, tech, text, note, ref = CHECKS[i]
            checks.append({"property_id": i,
              "quick_cmd": f"{PY} check.py {i} --tier quick",
              "thorough_cmd": f"{PY} check.py {i} --tier thorough",
              "evidence_file": f"/verif/evidence/{i}.json",
              "replay_cmd_template": f"{PY} check.py {i} --replay {{path}}",
              "engine": "hsverif", "technique": tech,
              "level_claimed": {"category": lvl, "text": text, "design_ref": "DESIGN.md section " + ref},
              "level_note": note})
        else:
            na.append({"property_id": i, "reason": NOT_YET})
    man = {"version": 1,
      "setup_cmd": f"{PY} -m pip install --no-index --find-links /opt/veriftools/wheels hypothesis >/dev/null 2>&1; {PY} tools/selftest.py",
      "hooks": {"guard": "HASHSTORE_VERIF", "enable": "no source hooks: the machinery interposes at the Python/OS boundary (os.*, builtins.open, fcntl.flock, threading/multiprocessing primitives) from the test process; checks import /repo/src directly (editable install) so there is no build step",
                "baseline_off_cmd": "cd /repo && /venv/bin/python -m pytest -ra -q -p no:cacheprovider --timeout=900 --continue-on-collection-errors",
                "source_commits": [], "add_only": True},
      "engines": [{"name": "hsverif", "path": "/verif/hsverif", "serves_properties": [c["property_id"] for c in checks],
                   "kind_free_text": "Hypothesis-driven property-based testing: model-based histories, owned thread schedules, crash-point and fault-site enumeration, differential checks"}],
      "checks": checks, "not_applicable": na,
      "notes": "Every check: exit 0 = held on everything explored; exit 1 + 'VIOLATION property=<id> replay=<path>'; exit 2 = harness error. VERIF_SEED and VERIF_TIER are honoured. Known findings: /verif/known_findings.json."}
    json.dump(man, open(os.path.join(HERE, "MANIFEST.json"), "w"), indent=1)
    try:
        import jsonschema
        jsonschema.validate(man, json.load(open("/root/.vp/MANIFEST.schema.json")))
        print("validated against MANIFEST.schema.json")
    except ImportError:
        print("(jsonschema not importable here: run with python3-vt to validate)")
    print("MANIFEST.json written:", len(checks), "checks,", len(na), "not_applicable")
if __name__ == "__main__":
    main()
