#!/venv/bin/python
"""Regenerates /verif/MANIFEST.json from the table below (kept valid at all times)."""
import json, os, sys
HERE = os.path.dirname(os.path.dirname(os.path.abspath(__file__)))
PY = "/venv/bin/python"
PBT = "property-based testing (Hypothesis)"
CHECKS = {
 # id: (level, technique, level text, level note, design ref)
 "C01": ("exploration", PBT + ": generated contents x input kinds x offsets x store algorithms x interposed histories; round-trip + independent hashlib oracle",
         "Generated-input search with a round-trip / independent-digest oracle over the product the property quantifies over; finds counterexamples, does not prove absence.",
         "Trusts hashlib and the local file system; contents bounded at 5 read buffers + 1 byte; histories of <= 10 interposed calls.", "4 C01"),
 "C02": ("exploration", PBT + ": generated call histories on one store directory (two instances) x 12 algorithms x spelling grammar; independent hashlib + name normaliser oracle, every question re-asked at the end; enumerated fault sites (one-off and late = effect-then-error) of stores that name extra algorithms: a reported success carries exactly that call's key set",
         "Generated histories judged by an independent digest oracle after every call; exploration only.",
         "Trusts hashlib; store_object without pid is not given algorithm arguments; checksums supplied are correct (C06 owns wrong ones).", "4 C02"),
 "C03": ("exploration", PBT + ": model-based generated histories biased to re-binding; observational binding tracker; state-frozen-across-rejection invariant",
         "Stateful generated histories with an invariant checked around every rejected call; plus fault-injected re-binding (one-off I/O errors at each read/write site of a rejected call).",
         "Single thread; binding tracked from call outcomes; exploration, not proof.", "4 C03"),
 "C04": ("exploration", PBT + ": generated histories over sharing-heavy alphabets (suffix/prefix-related pids); every bound pid retrieved after every step",
         "Stateful generated histories with a retrievability invariant after every step.", "Single thread; observational tracking of bindings.", "4 C04"),
 "C05": ("exploration", PBT + ": bounded-exhaustive call sequences (<=2 quick / <=3 thorough over a 26-call alphabet) + long Hypothesis histories; reference model == alpha(disk) after every call",
         "Model-based testing: a pure reference model of the public API is compared with the abstraction of the directory after every call; small sequences are enumerated completely.",
         "The reference model is written from the property / README / docstrings (section 2.1); single thread; valid arguments.", "4 C05"),
 "C06": ("exploration", PBT + ": generated (content, algorithm, spelling, checksum form, size form, prior state, entry point); verdict recomputed independently",
         "Generated-input search against an independently computed verdict.", "ObjectMetadata passed to delete_if_invalid_object is the one the store returned.", "4 C06"),
 "C07": ("exploration", PBT + " over owned thread schedules: generated/enumerated 2-3 call programs x every single (quick) / double (thorough) preemption at file-system and lock boundaries, conflict-directed enumeration (<=3 preemptions up to commutation of independent steps, thorough), constructed 3-thread shapes (holder/waiter/passer-by, holder/second/third, hand-over), two store instances on one shared reference list, references whose object was never uploaded; implementation-relative linearizability oracle",
         "Systematic schedule exploration with an owned cooperative scheduler (every preemption point of every conflicting pair, bounded by preemption count; conflict-directed reduction for the deeper bound) plus generated 3-thread schedules; the oracle is the set of outcomes of all sequential orders on copies of the start state.",
         "Schedules are explored at file-system-call / lock-operation granularity with sequentially consistent steps; <=3 threads, <=2 preemptions exhaustively (<=3 conflict-directed); waits with a timeout are modelled as expiring; known findings are excluded by signature.", "4 C07"),
 "C08": ("exploration", PBT + " over owned schedules and injected faults (one-off, persistent, disk-full, late = effect-then-error): structural deadlock detection, lock-list emptiness, follow-up calls; constructed 4-thread shapes (two holders + two waiters, wake chain); a step bound turns a call that spins for ever into a verdict (sleeps of the code under test are virtual)",
         "Same executions as C07/C12 (+4-thread generated programs) and every fault site of C13, judged by: no execution ends with a blocked thread, no identifier left locked, follow-up calls complete.",
         "Liveness is decided as a safety statement over owned schedules (no explored execution ends blocked); unbounded unfair schedules are out of reach.", "4 C08"),
 "C09": ("fault_enumeration", PBT + ": every file-system boundary of generated calls is an observation point (what a concurrent reader or a post-crash inspector sees); per-address absent<->complete state machine; enumerated removals / replacements of 64 MiB files",
         "For each generated call every boundary between two file-system operations (incl. write/flush/close of files opened for writing) is enumerated and the store is inspected there.",
         "Process death loses only user-space buffers (POSIX local fs); observation happens between Python-level file-system operations.", "4 C09"),
 "C10": ("fault_enumeration", PBT + ": every crash point (fork + os._exit before boundary k) of generated scenarios; recovery oracle on a fresh instance, also next to a third party that stored the same content after the crash; enumerated reference lists of exactly 64 KiB / 1 MiB",
         "Crash points of each generated scenario are enumerated completely; the child dies with os._exit (no finally/atexit, unflushed buffers lost); a fresh instance must satisfy the recovery oracle.",
         "Process death on a POSIX local file system (rename atomic, page cache coherent); power loss / fsync ordering out of scope.", "4 C10"),
 "C11": ("exploration", PBT + ": generated metadata histories over colliding (pid, format) pairs and equal-length documents; map model + tree equality via independent path computation",
         "Stateful generated histories against a document-map model after every call.", "Single thread; format ids non-empty without whitespace.", "4 C11"),
 "C12": ("exploration", PBT + " over owned thread schedules of metadata calls (<=2 preemptions exhaustive in quick); linearizability oracle with the reader widening stated in the property; calls on different documents through one and two instances must commute; sequenced calls per caller (program order kept by the sequential specification) under both directory-listing orders",
         "Systematic schedule exploration of 2-3 call metadata programs on one pid; oracle = sequential permutations on copies.",
         "As C07; a reader may additionally see any not-found error.", "4 C12"),
 "C13": ("fault_enumeration", PBT + ": every fault site (mutating op / open) x errno x {one-off, sticky} of generated scenarios, plus a faulted call next to a concurrent clean call (fault site x conflict-directed single preemption); raise-or-whole-effect, retry and bystander oracles",
         "Fault sites of each generated scenario are enumerated completely with EIO (quick) / EIO, ENOSPC, EACCES (thorough), one-off and persistent-for-destination.",
         "Faults are injected at the Python/OS boundary as OSError; stat-class probes are not sites (as the property states).", "4 C13"),
 "C14": ("exploration", PBT + ": generated (creation cfg, reopen cfg) near-miss pairs x encodings x key sets x path states; properties in any key order, hashstore.yaml re-dumped / with a lost tail; accept <=> equal, refused => parent-directory snapshot identical, accepted => nothing written and accepted again by a cold process",
         "Generated configuration pairs with an exact acceptance oracle and byte-for-byte snapshots.", "Parent directory private to the case.", "4 C14"),
 "C15": ("exploration", PBT + ": two generated configurations in one process x adversarial ids; independent implementation of the README layout predicts the complete tree",
         "Differential test against an independent implementation of the published layout; exact tree equality.", "Layout as documented in README / hashstore.yaml comments.", "4 C15"),
 "C16": ("exploration", PBT + ": mode differential on generated histories, owned schedules through the multiprocessing code paths (scheduler shims for multiprocessing.Lock/Condition/Manager().list), and real forked workers with generated delay plans",
         "Three generated searches: threading-vs-multiprocessing differential, owned schedules over the _mp branches, real fork()ed workers contending on shared identifiers judged by linearizability.",
         "Real inter-process schedules are perturbed, not owned; the owned-schedule part replaces the primitives by shims.", "4 C16"),
 "C17": ("exploration", PBT + ": grammar of invalid invocations of every public method (1-2 bad parameters) + successful reads, on empty and generated populated stores, also with the partial reference states a crash leaves; documented error class + byte-for-byte snapshot",
         "Grammar-based generation with a snapshot oracle.", "Only whitespace-only format ids are documented as rejected; other odd format ids are conditional.", "4 C17"),
 "C18": ("exploration", PBT + ": relation-aware adversarial identifier generator (prefix/suffix/case/NFC-NFD/path material/5000 chars) x histories; observational bystander oracle + containment",
         "Generated related-identifier triples; every bystander's view and files compared around every call; containment of all files in hash-derived locations.",
         "Identifiers without whitespace / lone surrogates, as the API requires.", "4 C18"),
 "C19": ("exploration", PBT + " (metamorphic): generated start state x content x validation; one-call vs stepwise procedure on copies of the same store",
         "Metamorphic relation between the two documented procedures, compared on results and abstract state.", "Wrong size without checksum excluded (inexpressible stepwise).", "4 C19"),
 "C20": ("exploration", PBT + " (differential): client main() in-process vs API call on copies, verb x option subsets x valid/invalid values x prior state",
         "Differential test client-vs-API on outcome class, stdout and abstract state.", "-deletemetadata without -formatid = default namespace; -obj_size integer literals.", "4 C20"),
}
NOT_YET = "check not built yet in this session (see DESIGN.md section 4 for the planned check)"
def main():
    props = [json.loads(l) for l in open(os.path.join(HERE, "properties.jsonl"))]
    checks, na = [], []
    for p in props:
        i = p["id"]
        if i in CHECKS and os.path.isfile(os.path.join(HERE, "hsverif", "props", i.lower() + ".py")):
            lvl, tech, text, note, ref = CHECKS[i]
            checks.append({"property_id": i,
              "quick_cmd": f"{PY} check.py {i} --tier quick",
              "thorough_cmd": f"{PY} check.py {i} --tier thorough",
              "evidence_file": f"/verif/evidence/{i}.json",
              "replay_cmd_template": f"{PY} check.py {i} --replay {{path}}",
              "engine": "hsverif", "technique": tech,
              "level_claimed": {"category": lvl, "text": text, "design_ref": "DESIGN.md section " + ref},
              "level_note": note})
        else:
            na.append({"property_id": i, "reason": NOT_YET})
    man = {"version": 1,
      "setup_cmd": f"{PY} -m pip install --no-index --find-links /opt/veriftools/wheels hypothesis >/dev/null 2>&1; "
                   f"{PY} -m pip install --no-index --find-links /opt/veriftools/wheels --target /verif/.deps atheris >/dev/null 2>&1; "
                   f"{PY} tools/selftest.py",
      "hooks": {"guard": "HASHSTORE_VERIF", "enable": "no source hooks: the machinery interposes at the Python/OS boundary (os.*, builtins.open, fcntl.flock, threading/multiprocessing primitives) from the test process; checks import /repo/src directly (editable install) so there is no build step",
                "baseline_off_cmd": "cd /repo && /venv/bin/python -m pytest -ra -q -p no:cacheprovider --timeout=900 --continue-on-collection-errors",
                "source_commits": [], "add_only": True},
      "engines": [{"name": "hsverif", "path": "/verif/hsverif", "serves_properties": [c["property_id"] for c in checks],
                   "kind_free_text": "Hypothesis-driven property-based testing: model-based histories, owned thread schedules, crash-point and fault-site enumeration, differential checks; thorough tier of C03 C04 C05 C06 C11 C17 C19 adds a coverage-guided campaign (atheris / libFuzzer over the same strategies and oracles)"}],
      "checks": checks, "not_applicable": na,
      "notes": "Every check: exit 0 = held on everything explored; exit 1 + 'VIOLATION property=<id> replay=<path>'; exit 2 = harness error. VERIF_SEED and VERIF_TIER are honoured. Known findings: /verif/known_findings.json."}
    json.dump(man, open(os.path.join(HERE, "MANIFEST.json"), "w"), indent=1)
    try:
        import jsonschema
        jsonschema.validate(man, json.load(open("/root/.vp/MANIFEST.schema.json")))
        print("validated against MANIFEST.schema.json")
    except ImportError:
        print("(jsonschema not importable here: run with python3-vt to validate)")
    print("MANIFEST.json written:", len(checks), "checks,", len(na), "not_applicable")
if __name__ == "__main__":
    main()
