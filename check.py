#!/venv/bin/python
"""Entry point: /venv/bin/python /verif/check.py <ID> [--tier quick|thorough] [--replay file]."""
import os
import sys

sys.path.insert(0, os.path.dirname(os.path.abspath(__file__)))
from hsverif.runner import main  # noqa: E402

if __name__ == "__main__":
    sys.exit(main())
